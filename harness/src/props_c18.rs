//! C18: no out-of-bounds access / UB in metadata handling.
//!
//! The same generated case spaces as C02/C06/C09 (sequential) and C01 (concurrent) are executed
//! with exact-size metadata buffers that end at PROT_NONE guard pages (normal build) or are exact
//! heap allocations with AddressSanitizer red zones (feature `asan`, nightly build). The oracle
//! is the absence of a memory fault / sanitizer report; the handler in `crash.rs` turns one into a
//! VIOLATION with the current case as replay file.

use llfree::HUGE_FRAMES;
use proptest::prelude::*;
use serde_json::{Value, json};

use crate::e1::{Oracles, SeqCase, run_seq};
use crate::e2::{ConcCase, ConcOpts, run_conc};
use crate::ops::*;
use crate::props_unit2::{InitCase, c06_check};
use crate::runner::*;
use crate::{Ctx, Finish, crash, geometry_features, geometry_name};

fn doc(engine: &str, case: Value) -> String {
    json!({
        "property": "C18",
        "engine": engine,
        "geometry": geometry_name(),
        "features": geometry_features(),
        "message": "memory fault / sanitizer report while executing this case",
        "case": case,
    })
    .to_string()
}

fn narrow_order(op: &Op) -> bool {
    match op {
        Op::Get { order, .. } | Op::Exhaust { order, .. } => (3..=6).contains(order),
        Op::Put {
            what: PutWhat::Arbitrary { order, .. },
            ..
        } => (3..=6).contains(order),
        _ => false,
    }
}

fn seq_nontrivial(c: &SeqCase) -> (bool, Vec<&'static str>) {
    let mut k = vec![];
    let slots = c.cfg.classes.slots();
    if c.cfg.frames == 0 || slots.iter().all(|s| *s == 0) {
        k.push("empty_metadata_buffer");
    }
    if c.cfg.frames % HUGE_FRAMES != 0 {
        k.push("partial_last_huge_frame");
    }
    if c.ops.iter().any(narrow_order) {
        k.push("narrow_atomic_order_3_to_6");
    }
    (!k.is_empty(), k)
}

pub fn run_seq_case(c: &SeqCase) -> Verdict {
    let d = doc("seq", serde_json::to_value(c).unwrap());
    crash::set_current(&d);
    // the remaining calls of a history are issued even after a model oracle of another property
    // fired: the memory fault may come a few calls later
    let or = Oracles {
        continue_for_panics: true,
        ..Oracles::default()
    };
    let _ = run_seq(c, &or, false);
    crash::clear_current();
    let (nt, k) = seq_nontrivial(c);
    Verdict::Pass {
        nontrivial: nt,
        classes: k,
    }
}

pub fn run_init_case(c: &InitCase) -> Verdict {
    let d = doc("init", serde_json::to_value(c).unwrap());
    crash::set_current(&d);
    let _ = c06_check(c);
    crash::clear_current();
    let nt = c.frames % HUGE_FRAMES != 0;
    Verdict::Pass {
        nontrivial: nt,
        classes: if nt { vec!["partial_last_huge_frame"] } else { vec![] },
    }
}

pub fn run_conc_case(c: &ConcCase) -> Verdict {
    let d = doc("conc", serde_json::to_value(c).unwrap());
    crash::set_current(&d);
    let _ = run_conc(c, &ConcOpts::default());
    crash::clear_current();
    let mut k = vec!["concurrent"];
    if c.cfg.frames % HUGE_FRAMES != 0 {
        k.push("partial_last_huge_frame");
    }
    if c.threads.iter().flatten().any(narrow_order) {
        k.push("narrow_atomic_order_3_to_6");
    }
    Verdict::Pass {
        nontrivial: k.len() > 1,
        classes: k,
    }
}

pub fn run_c18(ctx: &Ctx) -> Finish {
    let thorough = ctx.tier == "thorough";
    let asan = cfg!(feature = "asan");
    let mut ev = Evidence::new(
        "C18",
        &ctx.tier,
        ctx.seed,
        "exploration",
        "the generated case spaces of C09 (widest sequential histories: zero frames, zero-slot classes, all classings, any tree id, partial offlining), C06 (frame counts around every huge/tree boundary, both init modes) and C01 (2-3 thread executions under generated schedules) are executed with exact-size metadata buffers. Normal build: each buffer ends at a PROT_NONE guard page (and starts after one), so an overrun faults. ASan build (nightly, -Zsanitizer=address): buffers are exact heap allocations with red zones on both sides and every access of the allocator code is instrumented. Oracle: no SIGSEGV/SIGBUS and no sanitizer report (Miri runs a reduced exported set separately, see evidence key `miri`). Non-trivial = case with an empty metadata buffer, a partial last huge frame, or an order 3..6 request (the narrow-atomic toggle path); distinct by case hash.",
    );
    ev.assumptions.push(if asan {
        "this run: AddressSanitizer build, heap buffers with exact Layout".into()
    } else {
        "this run: guard-page build (overruns beyond the end / before the page-rounded start fault; in-bounds logic errors are other properties' business)".into()
    });
    std::fs::create_dir_all(&ctx.replay_dir).unwrap();
    let crash_path = ctx.replay_dir.join(format!(
        "C18-fault-{}{}.json",
        geometry_features(),
        if asan { "-asan" } else { "" }
    ));
    crash::install("C18", &crash_path);
    // A: widest sequential histories
    let spec = crate::props_seq::spec_for("C09").unwrap();
    let n = ctx.scale(if thorough { 400_000 } else { 30_000 }) / if asan { 4 } else { 1 };
    let (stats, _) = run_proptest(ctx.seed, n, || crate::props_seq::case_strategy(&spec), run_seq_case);
    ev.stats.merge(stats);
    // A2: many-tree configurations (metadata sizes are padded to 64 bytes: 16 tree words, so
    // size computations have boundaries at multiples of 16 trees)
    let w = Weights {
        change: 4,
        drain: 4,
        get_target: 20,
        ..Weights::base(3)
    };
    let big_frames = || {
        (1usize..=40, prop_oneof![Just(0usize), Just(1), Just(HUGE_FRAMES - 1), Just(HUGE_FRAMES), 0..llfree::TREE_FRAMES])
            .prop_map(|(t, r)| t * llfree::TREE_FRAMES + r)
    };
    let (stats, _) = run_proptest(
        ctx.seed ^ 0x18a2,
        ctx.scale(if thorough { 40_000 } else { 3_000 }) / if asan { 4 } else { 1 },
        || {
            (
                big_frames(),
                crate::gen_cfg::init_strategy(),
                crate::gen_cfg::class_strategy(true, false),
                prop::collection::vec(op_strategy(&w), 0..16),
                any::<u16>(),
            )
                .prop_map(|(frames, init, classes, mut ops, last)| {
                    // always touch the last tree: its metadata sits at the end of the buffers
                    ops.push(Op::Get { order: 0, class: 0, slot: SlotSel::None, target: Target::Boundary(0) });
                    ops.push(Op::Get { order: 0, class: 0, slot: SlotSel::Slot(last), target: Target::Boundary(1) });
                    SeqCase { cfg: crate::cfg::Config { frames, init, classes }, ops }
                })
                .boxed()
        },
        |c| {
            let v = run_seq_case(c);
            match v {
                Verdict::Pass { nontrivial, mut classes } => {
                    classes.push("many_trees");
                    Verdict::Pass { nontrivial, classes }
                }
                v => v,
            }
        },
    );
    ev.stats.merge(stats);
    let (stats, _) = run_proptest(
        ctx.seed ^ 0x18a3,
        ctx.scale(if thorough { 2_000 } else { 200 }) / if asan { 4 } else { 1 },
        || {
            (big_frames(), any::<bool>(), any::<bool>())
                .prop_map(|(frames, alloc_all, with_slot)| InitCase { frames, alloc_all, with_slot, dirty: if frames % 3 == 0 { 0xff } else { 0 } })
                .boxed()
        },
        run_init_case,
    );
    ev.stats.merge(stats);
    // B: initialization for frame counts around the boundaries
    let max = 4 * llfree::TREE_FRAMES + 70;
    let (stats, _) = run_proptest(
        ctx.seed ^ 0x18,
        ctx.scale(if thorough { 20_000 } else { 2_000 }) / if asan { 4 } else { 1 },
        || {
            (
                prop_oneof![1 => 1..=max, 2 => ((1..=max / HUGE_FRAMES), 0usize..140).prop_map(|(h, d)| (h * HUGE_FRAMES + d).saturating_sub(70).max(1))],
                any::<bool>(),
                any::<bool>(),
            )
                .prop_map(|(frames, alloc_all, with_slot)| InitCase { frames, alloc_all, with_slot, dirty: if frames % 3 == 0 { 0xff } else { 0 } })
                .boxed()
        },
        run_init_case,
    );
    ev.stats.merge(stats);
    // C: concurrent executions (coroutine stack switching is not ASan-clean: normal build only)
    if !asan {
        let cspec = crate::props_conc::spec_for("C01").unwrap();
        let (stats, _) = run_proptest(
            ctx.seed ^ 0x1801,
            ctx.scale(if thorough { 1_000_000 } else { 40_000 }),
            || crate::props_conc::case_strategy(&cspec),
            run_conc_case,
        );
        ev.stats.merge(stats);
    }
    crash::finish(&crash_path);
    ev.extra.insert("build".into(), json!(if asan { "asan" } else { "guard-pages" }));
    ctx.pass(ev)
}

/// Re-execute a saved case with the fault handler installed.
pub fn replay(docv: &Value, ctx_dir: &std::path::Path) -> Option<String> {
    let path = ctx_dir.join("C18-replay-fault.json");
    crash::install("C18", &path);
    match docv["engine"].as_str().unwrap_or("") {
        "seq" => {
            let c: SeqCase = serde_json::from_value(docv["case"].clone()).ok()?;
            run_seq_case(&c);
        }
        "init" => {
            let c: InitCase = serde_json::from_value(docv["case"].clone()).ok()?;
            run_init_case(&c);
        }
        "conc" => {
            let c: ConcCase = serde_json::from_value(docv["case"].clone()).ok()?;
            run_conc_case(&c);
        }
        _ => {}
    }
    crash::finish(&path);
    None
}
