fn main() {
    vfh::main_entry()
}
