//! Engine E2: logical threads as coroutines, generated schedules over the atomics hook.
//!
//! Exactly one coroutine runs at a time on one OS thread, so an execution is a
//! pure function of the case. Modes: plain (C01/C03/C04/C13), crash (C05),
//! freeze (C21).

use std::cell::Cell;
use std::collections::{BTreeMap, BTreeSet, HashSet};
use std::hash::{Hash, Hasher};

use corosensei::stack::DefaultStack;
use corosensei::{Coroutine, CoroutineResult, Yielder};
use llfree::verif_api::Op as AOp;
use llfree::{
    Alloc, Class, Error, FrameId, HUGE_FRAMES, Init, LLFree, Request, TREE_FRAMES, TREE_HUGE,
    TREE_ORDER, TreeChange, TreeId, TreeMatch, TreeOperation,
};
use serde::{Deserialize, Serialize};

use crate::buf::Bufs;
use crate::cfg::{Config, InitKind, Inst};
use crate::e1::{Violation, class_allowed, run_setup};
use crate::model::{Block, decompose};
use crate::ops::*;
use crate::panics::{PanicInfo, guarded};

#[derive(Serialize, Deserialize, Clone, Debug, PartialEq, Eq, Hash)]
pub enum Sched {
    /// Non-preemptive base order plus a list of (global step, target) preemptions
    Preempt { base: Vec<u8>, points: Vec<(u32, u8)> },
    /// PCT-style: priorities, and steps at which the running thread drops to the lowest priority
    Pct { prio: Vec<u8>, changes: Vec<u32> },
}

#[derive(Serialize, Deserialize, Clone, Debug, PartialEq, Eq, Hash)]
pub struct ConcCase {
    pub cfg: Config,
    pub setup: Vec<Op>,
    pub threads: Vec<Vec<Op>>,
    pub sched: Sched,
    /// threads call `alloc.lower.get/put` directly
    pub lower_only: bool,
    /// freeze mode: at this global step only this thread keeps running (C21)
    pub freeze: Option<(u32, u8)>,
    /// deal the two halves of every setup-held block (order >= 1) to different threads
    #[serde(default)]
    pub split_deal: bool,
}

#[derive(Clone, Debug, Default)]
pub struct ConcOpts {
    /// C05: recover and check at every write into the lower buffer
    pub crash: bool,
    /// C04: compare all accounting views at the quiescent end
    pub check_end: bool,
    /// C13
    pub class: bool,
    /// C03: sequential epilogue (drain, free everything held, drain)
    pub epilogue: bool,
    pub verbose: bool,
    /// known findings (id, substrings) tolerated inside the crash oracle
    pub tolerate: Vec<(String, Vec<String>)>,
}

#[derive(Clone, Debug, Default)]
pub struct ConcOutcome {
    pub violation: Option<Violation>,
    pub feats: BTreeMap<&'static str, u64>,
    pub steps: u64,
    /// C05: crash points at which recovery was run / skipped as duplicates
    pub crash_checked: u64,
    pub crash_skipped: u64,
    /// C05: hashes of non-trivial crash states (image strictly between pre- and post-call image)
    pub crash_nontrivial: Vec<u64>,
    /// C21: largest number of solo steps a frozen-others call needed
    pub solo_steps: u64,
    pub trace: Vec<String>,
    /// ids of listed known findings that fired (and were tolerated) in this execution
    pub known_hits: Vec<String>,
}
impl ConcOutcome {
    pub fn feat(&self, k: &str) -> u64 {
        self.feats.get(k).copied().unwrap_or(0)
    }
}

pub const STEP_LIMIT_MSG: &str = "VF_STEP_LIMIT";
/// Bound for a call running alone (C21). The largest solo call observed is a few hundred steps.
pub const SOLO_BOUND: u64 = 20_000;
const MAX_STEPS: u64 = 100_000;

#[derive(Clone, Debug, PartialEq, Eq, Hash)]
enum InFlight {
    Get { order: usize, target: Option<usize> },
    Put { block: Block },
    Other,
}

const FREE: u8 = 0;
const INIT_ALLOC: u8 = 0x7f;
fn held_by(t: usize) -> u8 {
    t as u8 + 1
}
fn inflight_by(t: usize) -> u8 {
    0x80 | t as u8
}

struct Freeze {
    at: u64,
    thread: usize,
    started: bool,
    active: bool,
    solo: u64,
    other_in_call: bool,
}

struct Exec {
    cfg: Config,
    opts: ConcOpts,
    lower_only: bool,
    alloc: *const LLFree<'static>,
    frames: usize,
    // address ranges for classification of hook addresses
    lower_base: usize,
    lower_len: usize,
    tables_base: usize,
    trees_base: usize,
    trees_len: usize,
    lower_ptr: *const u8,

    n: usize,
    step: u64,
    cur: usize,
    done: Vec<bool>,
    in_call: Vec<bool>,
    yielders: Vec<*const Yielder<(), usize>>,
    in_oracle: bool,
    finishing: bool,
    finishing_steps: u64,
    sched: Sched,
    pi: usize,
    prio: Vec<i64>,
    freeze: Option<Freeze>,

    // ownership
    owned: Vec<u8>,
    held: Vec<Vec<Block>>,
    inflight: Vec<Option<InFlight>>,
    offline: BTreeSet<usize>,
    touched: Vec<u64>,

    // crash mode
    seen: HashSet<u64>,
    call_h0: Vec<u64>,
    call_points: Vec<Vec<u64>>,

    stop: bool,
    out: ConcOutcome,
}

thread_local! {
    static CUR: Cell<*mut Exec> = const { Cell::new(core::ptr::null_mut()) };
    static STACKS: std::cell::RefCell<Vec<DefaultStack>> = const { std::cell::RefCell::new(Vec::new()) };
}

fn the_hook(op: AOp, addr: usize, _bytes: usize) {
    let p = CUR.with(|c| c.get());
    if !p.is_null() {
        unsafe {
            if (*p).in_oracle {
                return;
            }
            (*p).observe_atomic(op, addr);
            sched_point(p, true);
        }
    }
}

/// Scheduling point. No reference to `Exec` is alive across the suspension:
/// other coroutines mutate it through the same raw pointer.
unsafe fn sched_point(e: *mut Exec, atomic: bool) {
    unsafe {
        if (*e).in_oracle {
            return;
        }
        let next = (*e).point(atomic);
        let sw = match next {
            Some(n) => (*e).prepare_switch(n).map(|y| (y, n)),
            None => None,
        };
        if let Some((y, n)) = sw {
            (*y).suspend(n);
        }
    }
}

unsafe fn begin_call(e: *mut Exec, t: usize, inf: InFlight) {
    unsafe {
        sched_point(e, false);
        (*e).begin_call_book(t, inf);
    }
}
unsafe fn end_call(e: *mut Exec, t: usize) {
    unsafe {
        (*e).end_call_book(t);
        sched_point(e, false);
    }
}

unsafe fn do_get(
    e: *mut Exec,
    t: usize,
    order: usize,
    class: u8,
    slot: Option<usize>,
    target: Option<usize>,
    hint: usize,
) {
    unsafe {
        begin_call(e, t, InFlight::Get { order, target });
        let a = (*e).alloc();
        let lower_only = (*e).lower_only;
        let r = guarded(|| {
            if lower_only {
                let mut row = TreeId(0).as_row();
                row.0 = hint / 64;
                a.lower
                    .get(row, order, target.map(FrameId))
                    .map(|f| (f.0, class))
            } else {
                a.get(target.map(FrameId), Request::new(order, Class(class), slot))
                    .map(|(f, c)| (f.0, c.0))
            }
        });
        (*e).after_get(t, order, class, slot, target, r);
        end_call(e, t);
    }
}

unsafe fn do_put(e: *mut Exec, t: usize, b: Block, class: u8, slot: Option<usize>) {
    unsafe {
        (*e).before_put(t, b);
        begin_call(e, t, InFlight::Put { block: b });
        let a = (*e).alloc();
        let lower_only = (*e).lower_only;
        let r = guarded(|| {
            if lower_only {
                a.lower.put(FrameId(b.frame), b.order)
            } else {
                a.put(FrameId(b.frame), Request::new(b.order, Class(class), slot))
            }
        });
        (*e).after_put(t, b, class, slot, r);
        end_call(e, t);
    }
}

unsafe fn do_drain(e: *mut Exec, t: usize) {
    unsafe {
        begin_call(e, t, InFlight::Other);
        let a = (*e).alloc();
        let r = guarded(|| a.drain());
        (*e).log(|| format!("drain() -> {r:?}"));
        if let Err(p) = r {
            (*e).panicked("drain", p);
        }
        (*e).feat("drain");
        end_call(e, t);
    }
}

/// begin_call + the call itself; the caller does its bookkeeping and then `end_call`.
unsafe fn do_change(
    e: *mut Exec,
    t: usize,
    m: TreeMatch,
    c: TreeChange,
) -> Result<llfree::Result<()>, PanicInfo> {
    unsafe {
        begin_call(e, t, InFlight::Other);
        let a = (*e).alloc();
        guarded(|| a.change_tree(m, c))
    }
}

pub fn install() {
    static ONCE: std::sync::Once = std::sync::Once::new();
    ONCE.call_once(|| llfree::verif_api::set_hook(Some(the_hook)));
}

fn hash64<T: Hash>(t: &T) -> u64 {
    let mut h = std::collections::hash_map::DefaultHasher::new();
    t.hash(&mut h);
    h.finish()
}

impl Exec {
    fn feat(&mut self, k: &'static str) {
        *self.out.feats.entry(k).or_insert(0) += 1;
    }
    fn log(&mut self, s: impl FnOnce() -> String) {
        if self.opts.verbose {
            let s = s();
            self.out.trace.push(format!("[step {} T{}] {}", self.step, self.cur, s));
        }
    }
    fn violate(&mut self, tag: &str, msg: String, panic: Option<PanicInfo>) {
        if self.out.violation.is_none() {
            self.log(|| format!("VIOLATION {tag}: {msg}"));
            self.out.violation = Some(Violation {
                tag: tag.into(),
                step: self.step as usize,
                msg,
                panic,
            });
        }
        self.stop = true;
    }
    fn alloc(&self) -> &'static LLFree<'static> {
        unsafe { &*self.alloc }
    }

    fn tree_of(&self, addr: usize) -> Option<usize> {
        if addr >= self.trees_base && addr < self.trees_base + self.trees_len {
            Some((addr - self.trees_base) / 4)
        } else if addr >= self.tables_base && addr < self.lower_base + self.lower_len {
            Some((addr - self.tables_base) / 64)
        } else if addr >= self.lower_base && addr < self.tables_base {
            Some((addr - self.lower_base) / (HUGE_FRAMES / 8) / TREE_HUGE)
        } else {
            None
        }
    }

    fn runnable_others(&self, cur: usize) -> Vec<usize> {
        (0..self.n).filter(|&t| t != cur && !self.done[t]).collect()
    }

    /// Which thread runs after this scheduling point.
    fn decide(&mut self, cur: usize) -> usize {
        let step = self.step;
        match &mut self.sched {
            Sched::Preempt { points, .. } => {
                while self.pi < points.len() && (points[self.pi].0 as u64) < step {
                    self.pi += 1;
                }
                if self.pi < points.len() && points[self.pi].0 as u64 == step {
                    let to = points[self.pi].1 as usize;
                    self.pi += 1;
                    let others = self.runnable_others(cur);
                    if !others.is_empty() {
                        return others[to % others.len()];
                    }
                }
                cur
            }
            Sched::Pct { changes, .. } => {
                if changes.contains(&(step as u32)) {
                    let min = self.prio.iter().copied().min().unwrap_or(0);
                    self.prio[cur] = min - 1;
                }
                (0..self.n)
                    .filter(|&t| !self.done[t])
                    .max_by_key(|&t| self.prio[t])
                    .unwrap_or(cur)
            }
        }
    }

    /// First thread to run / thread to run after `cur` finished.
    fn pick_next(&self) -> Option<usize> {
        match &self.sched {
            Sched::Preempt { base, .. } => {
                let mut order: Vec<usize> = base.iter().map(|&b| b as usize % self.n).collect();
                for t in 0..self.n {
                    if !order.contains(&t) {
                        order.push(t);
                    }
                }
                order.into_iter().find(|&t| !self.done[t])
            }
            Sched::Pct { .. } => (0..self.n)
                .filter(|&t| !self.done[t])
                .max_by_key(|&t| self.prio[t]),
        }
    }

    /// Bookkeeping before a context switch; returns the yielder to suspend on.
    fn prepare_switch(&mut self, next: usize) -> Option<*const Yielder<(), usize>> {
        let t = self.cur;
        if next == t {
            return None;
        }
        if self.in_call[t] {
            self.feat("switch_inside_call");
        }
        self.feat("switches");
        Some(self.yielders[t])
    }

    /// Observation part of an atomic access (no suspension inside).
    fn observe_atomic(&mut self, op: AOp, addr: usize) {
        let t = self.cur;
        if self.in_call[t]
            && let Some(tree) = self.tree_of(addr)
        {
            let bit = 1u64 << (tree % 64);
            self.touched[t] |= bit;
            for u in 0..self.n {
                if u != t
                    && self.in_call[u]
                    && self.touched[u] & bit != 0
                    && !self.out.feats.contains_key("overlap_same_tree")
                {
                    self.feat("overlap_same_tree");
                }
            }
        }
        if self.opts.crash
            && !matches!(op, AOp::Load)
            && addr >= self.lower_base
            && addr < self.lower_base + self.lower_len
        {
            self.crash_check(false);
        }
    }

    /// Decide what happens at a scheduling point: Some(target) = switch to that thread.
    fn point(&mut self, atomic: bool) -> Option<usize> {
        self.step += 1;
        let t = self.cur;
        if self.finishing {
            self.finishing_steps += 1;
            if self.finishing_steps > MAX_STEPS && atomic {
                // unwind out of the call that does not finish (caught by its `guarded`);
                // later calls get a fresh budget
                self.finishing_steps = 0;
                panic!("{STEP_LIMIT_MSG}");
            }
            return None;
        }
        if self.step > MAX_STEPS {
            self.finishing = true;
            self.feat("step_limit_hit");
            return None;
        }
        if let Some(fz) = &mut self.freeze {
            if !fz.started && self.step >= fz.at {
                fz.started = true;
                if !self.done[fz.thread] {
                    fz.active = true;
                    fz.other_in_call = (0..self.n).any(|u| u != fz.thread && self.in_call[u]);
                    let target = fz.thread;
                    if t != target {
                        return Some(target);
                    }
                }
            }
            if fz.active {
                if t == fz.thread && atomic {
                    fz.solo += 1;
                    if fz.solo > SOLO_BOUND {
                        let s = fz.solo;
                        fz.active = false;
                        self.violate(
                            "C21",
                            format!("thread {t} running alone did not finish its call within {s} atomic steps"),
                            None,
                        );
                        self.finishing = true;
                        panic!("{STEP_LIMIT_MSG}");
                    }
                }
                return None;
            }
        }
        let next = self.decide(t);
        (next != t).then_some(next)
    }

    // ---- call bracketing (bookkeeping only; the scheduling points are in the free functions) ----

    fn begin_call_book(&mut self, t: usize, inf: InFlight) {
        self.inflight[t] = Some(inf);
        self.in_call[t] = true;
        self.touched[t] = 0;
        if self.opts.crash {
            self.call_h0[t] = self.image_hash();
            self.call_points[t].clear();
        }
    }
    fn end_call_book(&mut self, t: usize) {
        self.in_call[t] = false;
        self.inflight[t] = None;
        if self.opts.crash {
            let h1 = self.image_hash();
            let h0 = self.call_h0[t];
            let pts = std::mem::take(&mut self.call_points[t]);
            for h in pts {
                if h != h0 && h != h1 {
                    self.out.crash_nontrivial.push(h);
                }
            }
        }
        if let Some(fz) = &mut self.freeze
            && fz.active
            && fz.thread == t
        {
            fz.active = false;
            let (solo, other) = (fz.solo, fz.other_in_call);
            self.out.solo_steps = self.out.solo_steps.max(solo);
            self.feat("freeze_measured");
            if other {
                self.feat("freeze_other_in_call");
            }
        }
    }

    // ---- crash oracle (C05) -----------------------------------------------------------

    fn lower_image(&self) -> &[u8] {
        unsafe { core::slice::from_raw_parts(self.lower_ptr, self.lower_len) }
    }
    fn image_hash(&self) -> u64 {
        hash64(&self.lower_image())
    }

    /// Recover from a copy of the persistent buffer as it is right now and check the result.
    fn crash_check(&mut self, at_end: bool) {
        if self.out.violation.is_some() {
            return;
        }
        let img_h = self.image_hash();
        let key = hash64(&(img_h, &self.owned, &self.inflight));
        let t = self.cur;
        if !at_end && self.in_call[t] {
            self.call_points[t].push(img_h);
        }
        if !self.seen.insert(key) {
            self.out.crash_skipped += 1;
            return;
        }
        self.out.crash_checked += 1;
        self.in_oracle = true;
        let r = self.crash_check_inner();
        self.in_oracle = false;
        if let Err((msg, p)) = r {
            let msg = format!("[C05] crash at step {}: {msg}", self.step);
            // listed known findings are counted and the execution goes on behind them
            if let Some((id, _)) = self
                .opts
                .tolerate
                .iter()
                .find(|(_, subs)| !subs.is_empty() && subs.iter().all(|s| msg.contains(s.as_str())))
            {
                let id = id.clone();
                self.log(|| format!("known finding {id}: {msg}"));
                if !self.out.known_hits.contains(&id) {
                    self.out.known_hits.push(id);
                }
            } else {
                self.violate("C05", msg, p);
            }
        }
    }

    fn crash_check_inner(&mut self) -> Result<(), (String, Option<PanicInfo>)> {
        let frames = self.frames;
        let classing = self.cfg.classes.classing();
        let ms = LLFree::metadata_size(&classing, frames);
        let mut bufs = Bufs::new(&ms);
        bufs.lower.copy_from(self.lower_image());
        let classes = self.cfg.classes.clone();
        let rec = guarded(|| Inst::build_with(frames, Init::Recover, &classes, Some(bufs)))
            .map_err(|p| (format!("recovery panicked: {} at {}:{}", p.msg, p.file, p.line), Some(p)))?
            .map_err(|e| (format!("recovery failed: {e:?}"), None))?;
        let a = &rec.alloc;
        // per-frame status after recovery
        let status: Vec<bool> = guarded(|| {
            (0..frames)
                .map(|f| a.stats_at(FrameId(f), 0).free_frames == 0)
                .collect()
        })
        .map_err(|p| (format!("stats_at after recovery panicked: {}", p.msg), Some(p)))?;
        // (a)/(b) compare with ownership
        let mut unexplained: Vec<usize> = Vec::new();
        for f in 0..frames {
            let o = self.owned[f];
            if o & 0x80 != 0 {
                continue; // in-flight free: either state
            }
            if o != FREE {
                if !status[f] {
                    return Err((
                        format!("frame {f} belongs to a completed allocation (owner tag {o}) but is free after recovery; in-flight={:?}", self.inflight),
                        None,
                    ));
                }
            } else if status[f] {
                unexplained.push(f);
            }
        }
        // frames that were free but are allocated must be explained by in-flight allocations
        let gets: Vec<(usize, Option<usize>)> = self
            .inflight
            .iter()
            .filter_map(|i| match i {
                Some(InFlight::Get { order, target }) => Some((*order, *target)),
                _ => None,
            })
            .collect();
        if !unexplained.is_empty() && !explain(&unexplained, &gets) {
            // classify the leak so that a listed finding can be told from any other leak
            let set: HashSet<usize> = unexplained.iter().copied().collect();
            // frames in entirely-set rows of the huge frame of an in-flight partial free: the
            // transient fill of the listed finding; whatever remains must be explained by the
            // in-flight allocations as usual
            let split_huge: Vec<usize> = self
                .inflight
                .iter()
                .filter_map(|i| match i {
                    Some(InFlight::Put { block }) if block.order < llfree::HUGE_ORDER => Some(block.frame / HUGE_FRAMES),
                    _ => None,
                })
                .collect();
            let is_fill = |f: &usize| {
                split_huge.contains(&(f / HUGE_FRAMES))
                    && (f / 64 * 64..f / 64 * 64 + 64).all(|g| set.contains(&g))
            };
            let rest: Vec<usize> = unexplained.iter().copied().filter(|f| !is_fill(f)).collect();
            let stale_fill = rest.len() < unexplained.len() && (rest.is_empty() || explain(&rest, &gets));
            let pattern = if stale_fill {
                "whole free rows of the huge frame of an in-flight partial free are set (fill attempt of partial_put_huge after a stale huge-marker read)"
            } else {
                "other"
            };
            return Err((
                format!(
                    "frames {:?}{} ({} frames in rows {:?}) were free, are touched by no in-flight call, but are allocated after recovery; pattern: {pattern}; in-flight={:?}",
                    &unexplained[..unexplained.len().min(8)],
                    if unexplained.len() > 8 { "..." } else { "" },
                    unexplained.len(),
                    {
                        let mut rows: Vec<usize> = unexplained.iter().map(|f| f / 64).collect();
                        rows.dedup();
                        rows
                    },
                    self.inflight
                ),
                None,
            ));
        }
        // (c) counts agree, validate passes
        let r = guarded(|| {
            let fast = a.tree_stats().free_frames;
            let exact = a.stats().free_frames;
            (fast, exact)
        })
        .map_err(|p| (format!("stats after recovery panicked: {}", p.msg), Some(p)))?;
        if r.0 != r.1 {
            return Err((
                format!("after recovery fast free count {} != exact free count {}", r.0, r.1),
                None,
            ));
        }
        let exact_scan = status.iter().filter(|s| !**s).count();
        if r.1 != exact_scan {
            return Err((
                format!("after recovery exact free count {} != per-frame scan {exact_scan}", r.1),
                None,
            ));
        }
        guarded(|| a.validate())
            .map_err(|p| (format!("validate() after recovery failed: {} at {}:{}", p.msg, p.file, p.line), Some(p)))?;
        // (a) every completed block can be freed with its original order
        for t in 0..self.n {
            for b in self.held[t].clone() {
                let req = Request::new(b.order, Class(0), None);
                let r = guarded(|| a.put(FrameId(b.frame), req))
                    .map_err(|p| (format!("put({b:?}) after recovery panicked: {}", p.msg), Some(p)))?;
                if let Err(e) = r {
                    return Err((
                        format!("held block {b:?} (thread {t}) cannot be freed with its original order after recovery: {e:?}; in-flight={:?}", self.inflight),
                        None,
                    ));
                }
            }
        }
        guarded(|| a.validate())
            .map_err(|p| (format!("validate() after freeing held blocks on the recovered allocator failed: {}", p.msg), Some(p)))?;
        Ok(())
    }

    // ---- thread operations ------------------------------------------------------------

    fn slots(&self, class: u8) -> usize {
        self.cfg.classes.slots()[class as usize]
    }
    fn resolve_slot(&self, class: u8, s: &SlotSel) -> Option<usize> {
        match s {
            SlotSel::None => None,
            SlotSel::Slot(f) => {
                let n = self.slots(class);
                if n == 0 { None } else { Some(pick(*f, n)) }
            }
        }
    }
    fn find_free(&self, order: usize, from: usize) -> Option<usize> {
        let len = 1usize << order;
        let n = self.frames >> order;
        if n == 0 {
            return None;
        }
        let start = (from / len) % n;
        (0..n)
            .map(|i| ((start + i) % n) * len)
            .find(|&f| self.owned[f..f + len].iter().all(|o| *o == FREE))
    }
    fn resolve_target(&self, t: &Target, order: usize, me: usize) -> Option<usize> {
        let n = self.frames >> order;
        if n == 0 {
            return None;
        }
        let len = 1usize << order;
        let any = |f: Frac| Some(pick(f, n) << order);
        match t {
            Target::None => None,
            Target::Free(f) => self.find_free(order, pick(*f, self.frames)).or(any(*f)),
            Target::Held(f) => {
                // the position of some block held by anybody
                let all: Vec<Block> = self.held.iter().flatten().copied().collect();
                let _ = me;
                if all.is_empty() {
                    return any(*f);
                }
                let b = all[pick(*f, all.len())];
                let fr = b.frame / len * len;
                if fr + len <= self.frames { Some(fr) } else { any(*f) }
            }
            Target::Boundary(k) => match k % 4 {
                0 => Some((n - 1) << order),
                1 => {
                    let t = (self.frames - 1) / TREE_FRAMES * TREE_FRAMES;
                    if t + len <= self.frames { Some(t) } else { Some(0) }
                }
                2 => Some(0),
                _ => any(0x8000),
            },
            Target::Any(f) => any(*f),
        }
    }

    fn panicked(&mut self, what: &str, p: PanicInfo) {
        if p.msg.contains(STEP_LIMIT_MSG) {
            self.violate("LIMIT", format!("{what}: step limit reached (possible livelock under this schedule)"), None);
        } else if self
            .freeze
            .as_ref()
            .is_some_and(|fz| fz.active && fz.thread == self.cur)
        {
            // a call running alone that panics did not finish
            let msg = format!(
                "thread {} running alone (all others frozen) did not finish {what}: panicked with '{}' at {}:{}",
                self.cur, p.msg, p.file, p.line
            );
            self.violate("C21", msg, Some(p));
        } else {
            let msg = format!("{what} panicked: {} at {}:{}", p.msg, p.file, p.line);
            self.violate("PANIC", msg, Some(p));
        }
    }

    fn after_get(
        &mut self,
        t: usize,
        order: usize,
        class: u8,
        slot: Option<usize>,
        target: Option<usize>,
        r: Result<llfree::Result<(usize, u8)>, PanicInfo>,
    ) {
        let lower_only = self.lower_only;
        self.log(|| format!("get(target={target:?}, order={order}, class={class}, slot={slot:?}) -> {r:?}"));
        match r {
            Err(p) => self.panicked("get", p),
            Ok(Ok((frame, got_class))) => {
                let b = Block::new(frame, order);
                if frame % b.len() != 0 || b.end() > self.frames {
                    self.violate(
                        "C01",
                        format!("get returned {b:?}: misaligned or outside the managed range of {} frames", self.frames),
                        None,
                    );
                } else if let Some(f) = b.range().find(|&f| self.owned[f] != FREE && self.owned[f] & 0x80 == 0) {
                    let o = self.owned[f];
                    self.violate(
                        "C01",
                        format!(
                            "thread {t}: get returned {b:?} but frame {f} is currently held ({})",
                            if o == INIT_ALLOC { "allocated at init".to_string() } else { format!("by thread {}", o - 1) }
                        ),
                        None,
                    );
                } else if target.is_some_and(|x| x != frame) {
                    self.violate("C01", format!("targeted get at {target:?} returned frame {frame}"), None);
                } else {
                    if self.opts.class && !lower_only && !class_allowed(&self.cfg, class, got_class, order) {
                        self.violate(
                            "C13",
                            format!("get(order={order}, class={class}) reported class {got_class}, which the policy rates neither match nor steal"),
                            None,
                        );
                    }
                    if got_class != class {
                        self.feat("class_differs");
                    }
                    if self.offline.contains(&b.tree()) {
                        self.violate("C15", format!("get returned {b:?} inside offline tree {}", b.tree()), None);
                    }
                    for f in b.range() {
                        self.owned[f] = held_by(t);
                    }
                    self.held[t].push(b);
                    self.feat("get_ok");
                }
            }
            Ok(Err(_)) => {
                self.feat("get_fail");
            }
        }
    }

    fn before_put(&mut self, t: usize, b: Block) {
        for f in b.range() {
            debug_assert_eq!(self.owned[f], held_by(t));
            self.owned[f] = inflight_by(t);
        }
    }

    fn after_put(
        &mut self,
        t: usize,
        b: Block,
        class: u8,
        slot: Option<usize>,
        r: Result<llfree::Result<()>, PanicInfo>,
    ) {
        self.log(|| format!("put({b:?}, class={class}, slot={slot:?}) -> {r:?}"));
        match r {
            Err(p) => self.panicked(&format!("put({b:?})"), p),
            Ok(Err(e)) => {
                self.violate(
                    "C03",
                    format!("thread {t}: put of held block {b:?} failed with {e:?}"),
                    None,
                );
            }
            Ok(Ok(())) => {
                for f in b.range() {
                    if self.owned[f] == inflight_by(t) {
                        self.owned[f] = FREE;
                    }
                }
                self.feat("put_ok");
            }
        }
    }

    /// Take a held block (or a part of one) of thread `t` out of its held list.
    fn take_held(&mut self, t: usize, what: &PutWhat) -> Option<Block> {
        if self.held[t].is_empty() {
            return None;
        }
        let n = self.held[t].len();
        match what {
            PutWhat::Held(f) | PutWhat::Arbitrary { pos: f, .. } | PutWhat::Cover { held: f, .. } => {
                Some(self.held[t].swap_remove(pick(*f, n)))
            }
            PutWhat::Part { held, down, part } => {
                let b = self.held[t].swap_remove(pick(*held, n));
                let j = b.order.saturating_sub(*down as usize);
                let parts = 1usize << (b.order - j);
                let idx = pick(*part, parts);
                let p = Block::new(b.frame + (idx << j), j);
                // the other pieces stay held at the sub-order
                for q in 0..parts {
                    if q != idx {
                        self.held[t].push(Block::new(b.frame + (q << j), j));
                    }
                }
                if parts > 1 {
                    self.feat("part_put");
                }
                Some(p)
            }
        }
    }

    unsafe fn run_op(&mut self, t: usize, op: &Op) {
        let classes = self.cfg.classes.classes() as u8;
        match op {
            Op::Get { order, class, slot, target } => {
                let class = class % classes;
                let order = (*order as usize).min(TREE_ORDER);
                let slot = self.resolve_slot(class, slot);
                let hint = match target {
                    Target::Any(f) | Target::Free(f) | Target::Held(f) => pick(*f, self.frames.max(1)),
                    _ => 0,
                };
                let target = self.resolve_target(target, order, t);
                if (self.frames >> order) == 0 {
                    return; // no valid request of this order exists
                }
                unsafe { do_get(self, t, order, class, slot, target, hint) };
            }
            Op::Exhaust { order, class, slot } => {
                let class = class % classes;
                let order = (*order as usize).min(TREE_ORDER);
                let slot = self.resolve_slot(class, slot);
                if (self.frames >> order) == 0 {
                    return;
                }
                for _ in 0..3 {
                    if self.stop {
                        break;
                    }
                    unsafe { do_get(self, t, order, class, slot, None, 0) };
                }
            }
            Op::Put { what, class, slot } => {
                let class = class % classes;
                let slot = self.resolve_slot(class, slot);
                if let Some(b) = self.take_held(t, what) {
                    unsafe { do_put(self, t, b, class, slot) };
                }
            }
            Op::FreeSubset { mask, class, slot } => {
                let class = class % classes;
                let slot = self.resolve_slot(class, slot);
                let blocks: Vec<Block> = self.held[t].clone();
                for (i, b) in blocks.into_iter().enumerate() {
                    if self.stop {
                        break;
                    }
                    if mask >> (i % 32) & 1 == 1
                        && let Some(p) = self.held[t].iter().position(|x| *x == b)
                    {
                        self.held[t].swap_remove(p);
                        unsafe { do_put(self, t, b, class, slot) };
                    }
                }
            }
            Op::Drain => {
                if self.lower_only {
                    return;
                }
                unsafe { do_drain(self, t) };
            }
            Op::Change { sel, class, set_class, op, .. } => {
                if self.lower_only {
                    return;
                }
                let trees = self.frames.div_ceil(TREE_FRAMES);
                let class = class.map(|c| c % classes);
                let set_class = set_class.map(|c| c % classes);
                // race-free by construction: offline only entirely free trees,
                // online only trees this execution took offline
                let (m, c, online_of) = match op {
                    TreeOp::Offline => {
                        // always by id, so that the harness knows which tree went offline
                        let id = match sel {
                            TreeSel::Id(f) if trees > 0 => Some(TreeId(pick(*f, trees))),
                            _ => {
                                self.in_oracle = true;
                                let first = (0..trees).find(|&i| {
                                    let (_, f, r) = self.alloc().trees.stats_at(TreeId(i));
                                    f == TREE_FRAMES && !r
                                });
                                self.in_oracle = false;
                                match first {
                                    Some(i) => Some(TreeId(i)),
                                    None => return,
                                }
                            }
                        };
                        (
                            TreeMatch { id, class: class.map(Class), free: TREE_FRAMES },
                            TreeChange { class: set_class.map(Class), operation: Some(TreeOperation::Offline) },
                            None,
                        )
                    }
                    TreeOp::Online => {
                        let Some(&tid) = self.offline.iter().next() else {
                            return;
                        };
                        (
                            TreeMatch { id: Some(TreeId(tid)), class: None, free: 0 },
                            TreeChange { class: set_class.map(Class), operation: Some(TreeOperation::Online) },
                            Some(tid),
                        )
                    }
                    TreeOp::None => {
                        let id = match sel {
                            TreeSel::Id(f) if trees > 0 => Some(TreeId(pick(*f, trees))),
                            _ => None,
                        };
                        // never touch a tree that is offline (its word has free == 0)
                        if id.is_some_and(|i| self.offline.contains(&i.0)) || (id.is_none() && !self.offline.is_empty()) {
                            return;
                        }
                        (
                            TreeMatch { id, class: class.map(Class), free: 0 },
                            TreeChange { class: set_class.map(Class), operation: None },
                            None,
                        )
                    }
                };
                let is_offline = matches!(op, TreeOp::Offline);
                self.in_oracle = true;
                let pre: Vec<usize> = (0..trees).map(|i| self.alloc().trees.stats_at(TreeId(i)).1).collect();
                self.in_oracle = false;
                let m2 = m.clone();
                let r = unsafe { do_change(self, t, m, c) };
                let a = self.alloc();
                self.log(|| format!("change_tree({m2:?}) -> {r:?}"));
                match r {
                    Err(p) => self.panicked("change_tree", p),
                    Ok(Ok(())) => {
                        if is_offline {
                            // find the tree that went from TREE_FRAMES to 0
                            self.in_oracle = true;
                            let post: Vec<usize> = (0..trees).map(|i| a.trees.stats_at(TreeId(i)).1).collect();
                            self.in_oracle = false;
                            if let Some(id) = m2.id {
                                self.offline.insert(id.0);
                            } else if let Some(i) = (0..trees).find(|&i| pre[i] == TREE_FRAMES && post[i] == 0 && !self.offline.contains(&i)) {
                                self.offline.insert(i);
                            } else {
                                // cannot tell which tree (concurrent changes): stop judging offline state
                                self.feat("offline_unknown_tree");
                            }
                            self.feat("offline_ok");
                        }
                        if let Some(tid) = online_of {
                            self.offline.remove(&tid);
                            self.feat("online_ok");
                        }
                    }
                    Ok(Err(_)) => {}
                }
                unsafe { end_call(self, t) };
            }
            Op::DrainCheck { .. } | Op::Handoff | Op::Validate | Op::FreeTree { .. } => {}
        }
    }

    /// C03: the well-behaved history goes on sequentially after the concurrent part: drain,
    /// free every held block, drain again. Latent damage (a slot naming an unreserved tree,
    /// an inflated counter, a cleared bit of a held block) surfaces as a panic or a failing free.
    fn epilogue(&mut self) {
        let a = self.alloc();
        let lower_only = self.lower_only;
        if !lower_only && let Err(p) = guarded(|| a.drain()) {
            self.panicked("epilogue drain", p);
            return;
        }
        for t in 0..self.n {
            for b in std::mem::take(&mut self.held[t]) {
                let r = guarded(|| {
                    if lower_only {
                        a.lower.put(FrameId(b.frame), b.order)
                    } else {
                        a.put(FrameId(b.frame), Request::new(b.order, Class(0), None))
                    }
                });
                match r {
                    Err(p) => {
                        self.panicked(&format!("epilogue put({b:?})"), p);
                        return;
                    }
                    Ok(Err(e)) => {
                        self.violate("C03", format!("epilogue: put of block {b:?} held by thread {t} failed with {e:?}"), None);
                        return;
                    }
                    Ok(Ok(())) => {
                        for f in b.range() {
                            self.owned[f] = FREE;
                        }
                    }
                }
            }
        }
        if !lower_only && let Err(p) = guarded(|| a.drain()) {
            self.panicked("epilogue drain", p);
        }
        self.feat("epilogue");
    }

    // ---- quiescent end check (C04) ------------------------------------------------------

    fn check_end(&mut self) {
        let a = self.alloc();
        let frames = self.frames;
        let owned = &self.owned;
        let r = guarded(|| -> Option<String> {
            for f in 0..frames {
                let free = a.stats_at(FrameId(f), 0).free_frames == 1;
                if free != (owned[f] == FREE) {
                    return Some(format!(
                        "frame {f}: reported free={free} but ownership says owner tag {}",
                        owned[f]
                    ));
                }
            }
            let free_model = owned.iter().filter(|o| **o == FREE).count();
            let s = a.stats();
            if s.free_frames != free_model {
                return Some(format!("stats().free_frames={} but {free_model} frames are unowned", s.free_frames));
            }
            let huge_model = (0..frames / HUGE_FRAMES)
                .filter(|h| owned[h * HUGE_FRAMES..(h + 1) * HUGE_FRAMES].iter().all(|o| *o == FREE))
                .count();
            if s.free_huge != huge_model {
                return Some(format!("stats().free_huge={} but model says {huge_model}", s.free_huge));
            }
            None
        });
        match r {
            Err(p) => self.violate("C04", format!("statistics query panicked: {}", p.msg), Some(p)),
            Ok(Some(m)) => self.violate("C04", format!("at the quiescent end: {m}"), None),
            Ok(None) => {}
        }
        if self.lower_only || self.out.violation.is_some() {
            return;
        }
        let offline_frames = self.offline.len() * TREE_FRAMES;
        let r = guarded(|| (a.tree_stats().free_frames, a.stats().free_frames));
        match r {
            Err(p) => self.violate("C04", format!("tree_stats panicked: {}", p.msg), Some(p)),
            Ok((fast, exact)) => {
                if self.out.feat("offline_unknown_tree") == 0 && fast + offline_frames != exact {
                    self.violate(
                        "C04",
                        format!("at the quiescent end: fast free count {fast} + offline {offline_frames} != exact {exact}"),
                        None,
                    );
                }
            }
        }
        if self.offline.is_empty() && self.out.feat("offline_unknown_tree") == 0 && self.out.violation.is_none() {
            if let Err(p) = guarded(|| a.validate()) {
                let msg = format!("validate() failed at the quiescent end: {} at {}:{}", p.msg, p.file, p.line);
                self.violate("C04", msg, Some(p));
            }
        }
    }
}

/// Can the `extra` allocated frames be explained by the in-flight allocations
/// (one aligned block of its order per allocation, the target block if targeted)?
fn explain(extra: &[usize], gets: &[(usize, Option<usize>)]) -> bool {
    fn rec(extra: &[usize], gets: &[(usize, Option<usize>)], used: &mut Vec<bool>) -> bool {
        let Some(&first) = extra.first() else { return true };
        for i in 0..gets.len() {
            if used[i] {
                continue;
            }
            let (order, target) = gets[i];
            let len = 1usize << order;
            let start = match target {
                Some(t) => t,
                None => first / len * len,
            };
            if first < start || first >= start + len {
                continue;
            }
            let rest: Vec<usize> = extra.iter().copied().filter(|f| *f < start || *f >= start + len).collect();
            used[i] = true;
            if rec(&rest, gets, used) {
                return true;
            }
            used[i] = false;
        }
        false
    }
    rec(extra, gets, &mut vec![false; gets.len()])
}

fn take_stack() -> DefaultStack {
    STACKS
        .with(|s| s.borrow_mut().pop())
        .unwrap_or_else(|| DefaultStack::new(512 << 10).expect("coroutine stack"))
}
fn give_stack(s: DefaultStack) {
    STACKS.with(|p| {
        let mut p = p.borrow_mut();
        if p.len() < 8 {
            p.push(s);
        }
    });
}

/// Run one concurrent case.
pub fn run_conc(case: &ConcCase, opts: &ConcOpts) -> ConcOutcome {
    install();
    let n = case.threads.len();
    assert!((1..=6).contains(&n));
    let (inst, model) = match run_setup(&case.cfg, &case.setup) {
        Ok(x) => x,
        Err(v) => {
            // setup problems belong to the sequential properties
            let mut v = v;
            v.tag = format!("SETUP-{}", v.tag);
            return ConcOutcome {
                violation: Some(v),
                ..Default::default()
            };
        }
    };
    let frames = case.cfg.frames;
    // ownership after setup: held blocks are dealt round-robin to the threads
    let mut owned = vec![FREE; frames];
    let mut held: Vec<Vec<Block>> = vec![Vec::new(); n];
    let mut k = 0;
    let mut deal = |b: Block, owned: &mut Vec<u8>, held: &mut Vec<Vec<Block>>| {
        let t = k % n;
        k += 1;
        for f in b.range() {
            owned[f] = held_by(t);
        }
        held[t].push(b);
    };
    for b in model.held.iter() {
        if case.split_deal && b.order >= 1 && n >= 2 {
            let half = Block::new(b.frame, b.order - 1);
            deal(half, &mut owned, &mut held);
            deal(Block::new(half.end(), b.order - 1), &mut owned, &mut held);
        } else {
            deal(*b, &mut owned, &mut held);
        }
    }
    if case.cfg.init == InitKind::AllocAll {
        // frames allocated at init and still allocated: whole huge frames and single frames
        let mut f = 0;
        while f < frames {
            if owned[f] != FREE || !model.alloc[f] {
                f += 1;
                continue;
            }
            let h = f / HUGE_FRAMES;
            if f % HUGE_FRAMES == 0 && model.whole[h] && (h + 1) * HUGE_FRAMES <= frames {
                deal(Block::new(f, llfree::HUGE_ORDER), &mut owned, &mut held);
                f += HUGE_FRAMES;
            } else if model.whole[h] {
                // inside a whole huge frame that is partly held: cannot happen (whole => not split)
                owned[f] = INIT_ALLOC;
                f += 1;
            } else {
                // split huge frame or tail: maximal aligned runs as base-order blocks would be
                // thousands of blocks; keep them as init-allocated, except a few
                owned[f] = INIT_ALLOC;
                f += 1;
            }
        }
        // hand out some of the init-allocated single frames as order-0 blocks
        let singles: Vec<usize> = (0..frames).filter(|&f| owned[f] == INIT_ALLOC).take(8).collect();
        for f in singles {
            deal(Block::new(f, 0), &mut owned, &mut held);
        }
    }
    let _ = decompose;
    let classing = case.cfg.classes.classing();
    let ms = LLFree::metadata_size(&classing, frames);
    let bitfield_bytes = frames.div_ceil(HUGE_FRAMES) * (HUGE_FRAMES / 8);
    let mut exec = Box::new(Exec {
        cfg: case.cfg.clone(),
        opts: opts.clone(),
        lower_only: case.lower_only,
        alloc: &inst.alloc as *const LLFree<'static>,
        frames,
        lower_base: inst.bufs.lower.addr(),
        lower_len: ms.lower,
        tables_base: inst.bufs.lower.addr() + bitfield_bytes,
        trees_base: inst.bufs.trees.addr(),
        trees_len: ms.trees,
        lower_ptr: inst.bufs.lower.addr() as *const u8,
        n,
        step: 0,
        cur: 0,
        done: vec![false; n],
        in_call: vec![false; n],
        yielders: vec![core::ptr::null(); n],
        in_oracle: false,
        finishing: false,
        finishing_steps: 0,
        sched: case.sched.clone(),
        pi: 0,
        prio: match &case.sched {
            Sched::Pct { prio, .. } => (0..n).map(|t| *prio.get(t).unwrap_or(&0) as i64 * 8 + t as i64).collect(),
            _ => vec![0; n],
        },
        freeze: case.freeze.map(|(at, th)| Freeze {
            at: at as u64,
            thread: th as usize % n,
            started: false,
            active: false,
            solo: 0,
            other_in_call: false,
        }),
        owned,
        held,
        inflight: vec![None; n],
        offline: model.offline.clone(),
        touched: vec![0; n],
        seen: HashSet::new(),
        call_h0: vec![0; n],
        call_points: vec![Vec::new(); n],
        stop: false,
        out: ConcOutcome::default(),
    });
    if let Sched::Preempt { points, .. } = &mut exec.sched {
        points.sort();
    }
    let ep: *mut Exec = &mut *exec;
    let ep_us = ep as usize;
    let mut coros: Vec<Coroutine<(), usize, (), DefaultStack>> = Vec::with_capacity(n);
    for t in 0..n {
        let ops = case.threads[t].clone();
        coros.push(Coroutine::with_stack(take_stack(), move |y: &Yielder<(), usize>, ()| {
            let e = ep_us as *mut Exec;
            unsafe {
                (&mut (*e).yielders)[t] = y as *const _;
                for op in &ops {
                    if (*e).stop {
                        break;
                    }
                    (*e).run_op(t, op);
                }
            }
        }));
    }
    CUR.with(|c| c.set(ep));
    exec.cur = exec.pick_next().unwrap_or(0);
    loop {
        let t = exec.cur;
        if exec.done[t] {
            match exec.pick_next() {
                Some(x) => {
                    exec.cur = x;
                    continue;
                }
                None => break,
            }
        }
        match coros[t].resume(()) {
            CoroutineResult::Yield(next) => {
                let e = unsafe { &mut *ep };
                e.cur = if e.done[next] { e.pick_next().unwrap_or(t) } else { next };
            }
            CoroutineResult::Return(()) => {
                let e = unsafe { &mut *ep };
                e.done[t] = true;
                if let Some(fz) = &mut e.freeze
                    && fz.thread == t
                {
                    fz.active = false;
                }
                match e.pick_next() {
                    Some(x) => e.cur = x,
                    None => break,
                }
            }
        }
    }
    CUR.with(|c| c.set(core::ptr::null_mut()));
    for c in coros {
        give_stack(c.into_stack());
    }
    exec.out.steps = exec.step;
    if exec.out.violation.is_none() && exec.out.feat("step_limit_hit") == 0 && opts.epilogue {
        exec.epilogue();
    }
    if exec.out.violation.is_none() && exec.out.feat("step_limit_hit") == 0 {
        if opts.crash {
            exec.crash_check(true);
        }
        if opts.check_end {
            exec.check_end();
        }
    }
    let out = std::mem::take(&mut exec.out);
    drop(exec);
    drop(inst);
    out
}
