//! SIGSEGV/SIGBUS reporting for C18: the metadata buffers end at guard pages, so an
//! out-of-bounds access is a fault. The handler writes the current case (pre-serialized
//! replay document) to a file, prints the VIOLATION line and exits with status 1.
//! Under AddressSanitizer (feature `asan`) the same is done from ASan's death callback.

use std::cell::Cell;
use std::sync::OnceLock;
use std::sync::atomic::{AtomicI32, Ordering};

thread_local! {
    /// pointer/length of the replay document of the case this thread is executing
    static CUR_DOC: Cell<(*const u8, usize)> = const { Cell::new((core::ptr::null(), 0)) };
}

static CRASH_FD: AtomicI32 = AtomicI32::new(-1);
/// exit status of the handler: 1 = the fault is a violation of the running property, 2 = inconclusive
static EXIT_CODE: AtomicI32 = AtomicI32::new(1);

/// Give the calling thread an alternate signal stack, so that a stack overflow (runaway
/// recursion in the allocator) is reported by the handler instead of killing the process silently.
pub fn altstack() {
    thread_local! { static DONE: Cell<bool> = const { Cell::new(false) }; }
    if DONE.with(|d| d.replace(true)) {
        return;
    }
    const SZ: usize = 256 << 10;
    unsafe {
        let p = libc::mmap(core::ptr::null_mut(), SZ, libc::PROT_READ | libc::PROT_WRITE, libc::MAP_PRIVATE | libc::MAP_ANONYMOUS, -1, 0);
        if p != libc::MAP_FAILED {
            let ss = libc::stack_t { ss_sp: p, ss_flags: 0, ss_size: SZ };
            libc::sigaltstack(&ss, core::ptr::null_mut());
        }
    }
}
static VIOLATION_LINE: OnceLock<Vec<u8>> = OnceLock::new();
static CRASH_PATH: OnceLock<std::path::PathBuf> = OnceLock::new();

/// Close (and remove, if empty) the crash file of this process.
pub fn finish_current() {
    if let Some(p) = CRASH_PATH.get() {
        finish(p);
    }
}

/// Keep `doc` alive while the case runs!
pub fn set_current(doc: &str) {
    CUR_DOC.with(|c| c.set((doc.as_ptr(), doc.len())));
}
pub fn clear_current() {
    CUR_DOC.with(|c| c.set((core::ptr::null(), 0)));
}

fn report(kind: &[u8]) {
    unsafe {
        let fd = CRASH_FD.load(Ordering::Relaxed);
        let (p, n) = CUR_DOC.with(|c| c.get());
        if fd >= 0 {
            if !p.is_null() {
                libc::write(fd, p.cast(), n);
            } else {
                let s = b"{\"property\":\"C18\",\"engine\":\"none\",\"message\":\"fault outside of a tracked case\"}";
                libc::write(fd, s.as_ptr().cast(), s.len());
            }
            libc::fsync(fd);
        }
        libc::write(1, kind.as_ptr().cast(), kind.len());
        if let Some(l) = VIOLATION_LINE.get() {
            libc::write(1, l.as_ptr().cast(), l.len());
        }
    }
}

extern "C" fn on_fault(_sig: i32, _info: *mut libc::siginfo_t, _ctx: *mut libc::c_void) {
    if EXIT_CODE.load(Ordering::Relaxed) == 1 {
        report(b"violation: memory fault (SIGSEGV/SIGBUS): access outside the metadata buffers (guard page hit) or stack overflow (runaway recursion)\n");
    } else {
        report(b"INCONCLUSIVE: memory fault or stack overflow while executing a case (not this property's business); case saved\n");
    }
    unsafe { libc::_exit(EXIT_CODE.load(Ordering::Relaxed)) };
}

#[cfg(feature = "asan")]
unsafe extern "C" {
    fn __sanitizer_set_death_callback(cb: extern "C" fn());
}
#[cfg(feature = "asan")]
extern "C" fn on_asan_death() {
    report(b"violation: AddressSanitizer report (see stderr)\n");
}

/// Install the handlers; faults are reported as violations of `prop` with the replay file `path`.
pub fn install(prop: &str, path: &std::path::Path) {
    install_as(prop, path, true)
}

/// `violation`: a fault is a violation of `prop` (C18: out of bounds; C09/C03/C21: the call
/// aborted / never returned); otherwise the run ends inconclusive (exit 2).
pub fn install_as(prop: &str, path: &std::path::Path, violation: bool) {
    EXIT_CODE.store(if violation { 1 } else { 2 }, Ordering::Relaxed);
    let _ = CRASH_PATH.set(path.to_path_buf());
    altstack();
    let c = std::ffi::CString::new(path.to_str().unwrap()).unwrap();
    let fd = unsafe { libc::open(c.as_ptr(), libc::O_CREAT | libc::O_WRONLY | libc::O_TRUNC, 0o644) };
    CRASH_FD.store(fd, Ordering::Relaxed);
    let _ = VIOLATION_LINE.set(if violation {
        format!("VIOLATION property={prop} replay={}\n", path.display()).into_bytes()
    } else {
        format!("(case saved at {})\n", path.display()).into_bytes()
    });
    unsafe {
        let mut sa: libc::sigaction = core::mem::zeroed();
        sa.sa_sigaction = on_fault as usize;
        sa.sa_flags = libc::SA_SIGINFO | libc::SA_ONSTACK;
        libc::sigemptyset(&mut sa.sa_mask);
        libc::sigaction(libc::SIGSEGV, &sa, core::ptr::null_mut());
        libc::sigaction(libc::SIGBUS, &sa, core::ptr::null_mut());
        #[cfg(feature = "asan")]
        __sanitizer_set_death_callback(on_asan_death);
    }
}

/// Remove the (empty) crash file when nothing happened.
pub fn finish(path: &std::path::Path) {
    let fd = CRASH_FD.swap(-1, Ordering::Relaxed);
    if fd >= 0 {
        unsafe { libc::close(fd) };
    }
    if std::fs::metadata(path).map(|m| m.len() == 0).unwrap_or(false) {
        let _ = std::fs::remove_file(path);
    }
}
