#!/bin/bash
# Confirm a seeded change delivered by a sub-agent in its scratch worktree:
#   confirm_mutant.sh <worktree> <demo source file under MUTANT/> [<package> default llfree-eval]
# 1. clean checkout + patch compiles, 2. the repository's suite passes with the patch (demo not installed),
# 3. demo fails with the patch, 4. demo passes without it.  Prints one CONFIRM line.
set -u
WT=$1; DEMO=$2; PKG=${3:-llfree-eval}
export CARGO_NET_OFFLINE=true
cd "$WT" || exit 2
NAME=$(basename "$DEMO" .rs)
DIR=eval/tests; [ "$PKG" = "llfree" ] && DIR=core/tests
git checkout -q -- . ; rm -f "$DIR/$NAME.rs"
git apply --check MUTANT/patch.diff || { echo "CONFIRM $WT patch-does-not-apply"; exit 1; }
git apply MUTANT/patch.diff
SUITE=$(cargo test --workspace --no-fail-fast --offline 2>&1 | grep -E "^test result|error(\[|:)" )
if echo "$SUITE" | grep -qE "error|[1-9][0-9]* failed"; then S=suite-FAILS; else S=suite-passes; fi
mkdir -p "$DIR"; cp "MUTANT/$NAME.rs" "$DIR/$NAME.rs"
if timeout 600 cargo test -p "$PKG" --test "$NAME" --offline >/tmp/confirm_$$.log 2>&1; then W=demo-with-PASSES; else W=demo-with-fails; fi
git apply -R MUTANT/patch.diff
if timeout 600 cargo test -p "$PKG" --test "$NAME" --offline >/tmp/confirm_$$.log 2>&1; then O=demo-without-passes; else O=demo-without-FAILS; fi
rm -f "$DIR/$NAME.rs" /tmp/confirm_$$.log
git checkout -q -- .
echo "CONFIRM $WT $S $W $O"
