//! Operation alphabet shared by all engines.
//!
//! State-dependent arguments are stored as 16-bit fractions that the
//! interpreter maps monotonically onto the current candidates
//! (`i * len >> 16`), so shrinking moves towards earlier choices.

use proptest::prelude::*;
use serde::{Deserialize, Serialize};

pub type Frac = u16;

pub fn pick(frac: Frac, len: usize) -> usize {
    debug_assert!(len > 0);
    ((frac as usize) * len) >> 16
}

#[derive(Serialize, Deserialize, Clone, Debug, PartialEq, Eq, Hash)]
pub enum Target {
    /// No target frame
    None,
    /// An aligned block that the model says is free (searched from a fractional position)
    Free(Frac),
    /// The position of a currently held block (expected to fail unless order differs...)
    Held(Frac),
    /// The last aligned block in range / first block of the last tree / last huge frame
    Boundary(u8),
    /// Any aligned in-range position
    Any(Frac),
}

#[derive(Serialize, Deserialize, Clone, Debug, PartialEq, Eq, Hash)]
pub enum SlotSel {
    /// No slot
    None,
    /// A slot of the request's class (fraction of the slot count; None if the class has no slots)
    Slot(Frac),
}

#[derive(Serialize, Deserialize, Clone, Debug, PartialEq, Eq, Hash)]
pub enum PutWhat {
    /// A held block, whole
    Held(Frac),
    /// A part of a held block: `down` orders smaller (clamped), fractional part index
    Part { held: Frac, down: u8, part: Frac },
    /// An arbitrary aligned in-range block (may be free, partly held, ...)
    Arbitrary { order: u8, pos: Frac },
    /// An aligned block of larger order that covers a held block (merge attempt)
    Cover { held: Frac, up: u8 },
}

#[derive(Serialize, Deserialize, Clone, Debug, PartialEq, Eq, Hash)]
pub enum TreeSel {
    /// Match by id: fraction over `0..trees` (+ `extra` trees beyond the end if > 0)
    Id(Frac),
    /// Tree id beyond the last tree (by `n`)
    Beyond(u8),
    /// Match by class/free only
    Match,
}

#[derive(Serialize, Deserialize, Clone, Copy, Debug, PartialEq, Eq, Hash)]
pub enum MinFree {
    Zero,
    One,
    Huge,
    Tree,
    Frac(Frac),
}

#[derive(Serialize, Deserialize, Clone, Copy, Debug, PartialEq, Eq, Hash)]
pub enum TreeOp {
    None,
    Online,
    Offline,
}

#[derive(Serialize, Deserialize, Clone, Debug, PartialEq, Eq, Hash)]
pub enum Op {
    Get {
        order: u8,
        class: u8,
        slot: SlotSel,
        target: Target,
    },
    Put {
        what: PutWhat,
        class: u8,
        slot: SlotSel,
    },
    Drain,
    Change {
        sel: TreeSel,
        class: Option<u8>,
        min_free: MinFree,
        set_class: Option<u8>,
        op: TreeOp,
    },
    /// Allocate until failure (bounded)
    Exhaust { order: u8, class: u8, slot: SlotSel },
    /// Free every held block whose index bit is set in the (repeating) mask
    FreeSubset { mask: u32, class: u8, slot: SlotSel },
    /// Free every held block that lies in one tree: the first reserved tree (`reserved`), else
    /// the tree picked by the fraction
    FreeTree {
        reserved: bool,
        tree: Frac,
        class: u8,
        slot: SlotSel,
    },
    /// Drain, then one checked allocation (C10)
    DrainCheck {
        class: u8,
        slot: SlotSel,
        order: u8,
        target: Target,
    },
    /// Rebuild a twin from copies of the metadata (C07)
    Handoff,
    /// Call validate()
    Validate,
}

/// Generator weights; a property's driver picks its own.
#[derive(Clone, Debug)]
pub struct Weights {
    pub get: u32,
    pub get_target: u32,
    pub put_held: u32,
    pub put_part: u32,
    pub put_arbitrary: u32,
    pub put_cover: u32,
    pub drain: u32,
    pub change: u32,
    pub change_offline_full: u32,
    pub exhaust: u32,
    pub free_subset: u32,
    pub free_tree: u32,
    pub drain_check: u32,
    pub handoff: u32,
    pub validate: u32,
    /// highest order generated (TREE_ORDER normally)
    pub max_order: u8,
    /// number of configured classes
    pub classes: u8,
    /// allow tree ids beyond the end
    pub beyond: bool,
    /// restrict offline to min_free = Tree
    pub offline_full_only: bool,
    /// allocations always name a slot (C11)
    pub get_always_slot: bool,
}

impl Weights {
    pub fn base(classes: usize) -> Self {
        Self {
            get: 30,
            get_target: 12,
            put_held: 25,
            put_part: 8,
            put_arbitrary: 5,
            put_cover: 2,
            drain: 4,
            change: 0,
            change_offline_full: 0,
            exhaust: 2,
            free_subset: 2,
            free_tree: 1,
            drain_check: 0,
            handoff: 0,
            validate: 0,
            max_order: llfree::TREE_ORDER as u8,
            classes: classes as u8,
            beyond: false,
            offline_full_only: true,
            get_always_slot: false,
        }
    }
}

fn order_strategy(max: u8) -> BoxedStrategy<u8> {
    // dense on small orders, the multi-row orders, the huge orders
    let h = llfree::HUGE_ORDER as u8;
    prop_oneof![
        6 => Just(0u8),
        4 => 0..=6u8.min(max),
        2 => (7u8.min(max))..=(h - 1).min(max),
        2 => Just(h.min(max)),
        1 => (h.min(max))..=max,
        1 => Just(max),
    ]
    .boxed()
}

fn slot_strategy() -> BoxedStrategy<SlotSel> {
    prop_oneof![
        1 => Just(SlotSel::None),
        4 => any::<u16>().prop_map(SlotSel::Slot),
    ]
    .boxed()
}

fn target_strategy() -> BoxedStrategy<Target> {
    prop_oneof![
        6 => any::<u16>().prop_map(Target::Free),
        2 => any::<u16>().prop_map(Target::Held),
        2 => (0u8..4).prop_map(Target::Boundary),
        2 => any::<u16>().prop_map(Target::Any),
    ]
    .boxed()
}

fn min_free_strategy() -> BoxedStrategy<MinFree> {
    prop_oneof![
        3 => Just(MinFree::Zero),
        1 => Just(MinFree::One),
        1 => Just(MinFree::Huge),
        3 => Just(MinFree::Tree),
        1 => any::<u16>().prop_map(MinFree::Frac),
    ]
    .boxed()
}

pub fn op_strategy(w: &Weights) -> BoxedStrategy<Op> {
    let classes = w.classes.max(1);
    let class = move || 0..classes;
    let max_order = w.max_order;
    let always = w.get_always_slot;
    let get_slot = move || -> BoxedStrategy<SlotSel> {
        if always {
            any::<u16>().prop_map(SlotSel::Slot).boxed()
        } else {
            slot_strategy()
        }
    };
    let mut alts: Vec<(u32, BoxedStrategy<Op>)> = Vec::new();
    alts.push((
        w.get,
        (order_strategy(max_order), class(), get_slot())
            .prop_map(|(order, class, slot)| Op::Get {
                order,
                class,
                slot,
                target: Target::None,
            })
            .boxed(),
    ));
    alts.push((
        w.get_target,
        (
            order_strategy(max_order),
            class(),
            get_slot(),
            target_strategy(),
        )
            .prop_map(|(order, class, slot, target)| Op::Get {
                order,
                class,
                slot,
                target,
            })
            .boxed(),
    ));
    alts.push((
        w.put_held,
        (any::<u16>(), class(), slot_strategy())
            .prop_map(|(h, class, slot)| Op::Put {
                what: PutWhat::Held(h),
                class,
                slot,
            })
            .boxed(),
    ));
    alts.push((
        w.put_part,
        (any::<u16>(), 1u8..=10, any::<u16>(), class(), slot_strategy())
            .prop_map(|(held, down, part, class, slot)| Op::Put {
                what: PutWhat::Part { held, down, part },
                class,
                slot,
            })
            .boxed(),
    ));
    alts.push((
        w.put_arbitrary,
        (
            order_strategy(max_order),
            any::<u16>(),
            class(),
            slot_strategy(),
        )
            .prop_map(|(order, pos, class, slot)| Op::Put {
                what: PutWhat::Arbitrary { order, pos },
                class,
                slot,
            })
            .boxed(),
    ));
    alts.push((
        w.put_cover,
        (any::<u16>(), 1u8..=3, class(), slot_strategy())
            .prop_map(|(held, up, class, slot)| Op::Put {
                what: PutWhat::Cover { held, up },
                class,
                slot,
            })
            .boxed(),
    ));
    alts.push((w.drain, Just(Op::Drain).boxed()));
    let beyond = w.beyond;
    let sel = move || -> BoxedStrategy<TreeSel> {
        if beyond {
            prop_oneof![
                4 => any::<u16>().prop_map(TreeSel::Id),
                1 => (0u8..3).prop_map(TreeSel::Beyond),
                3 => Just(TreeSel::Match),
            ]
            .boxed()
        } else {
            prop_oneof![
                4 => any::<u16>().prop_map(TreeSel::Id),
                3 => Just(TreeSel::Match),
            ]
            .boxed()
        }
    };
    let opt_class = move || prop_oneof![2 => Just(None), 3 => (0..classes).prop_map(Some)];
    let full_only = w.offline_full_only;
    alts.push((
        w.change,
        (
            sel(),
            opt_class(),
            min_free_strategy(),
            opt_class(),
            prop_oneof![
                2 => Just(TreeOp::None),
                3 => Just(TreeOp::Online),
                3 => Just(TreeOp::Offline)
            ],
        )
            .prop_map(move |(sel, class, min_free, set_class, op)| Op::Change {
                sel,
                class,
                min_free: if full_only && op == TreeOp::Offline {
                    MinFree::Tree
                } else {
                    min_free
                },
                set_class,
                op,
            })
            .boxed(),
    ));
    alts.push((
        w.change_offline_full,
        (sel(), opt_class(), opt_class())
            .prop_map(|(sel, class, set_class)| Op::Change {
                sel,
                class,
                min_free: MinFree::Tree,
                set_class,
                op: TreeOp::Offline,
            })
            .boxed(),
    ));
    alts.push((
        w.exhaust,
        (order_strategy(max_order), class(), get_slot())
            .prop_map(|(order, class, slot)| Op::Exhaust { order, class, slot })
            .boxed(),
    ));
    alts.push((
        w.free_subset,
        (any::<u32>(), class(), slot_strategy())
            .prop_map(|(mask, class, slot)| Op::FreeSubset { mask, class, slot })
            .boxed(),
    ));
    alts.push((
        w.free_tree,
        (any::<bool>(), any::<u16>(), class(), slot_strategy())
            .prop_map(|(reserved, tree, class, slot)| Op::FreeTree {
                reserved,
                tree,
                class,
                slot,
            })
            .boxed(),
    ));
    alts.push((
        w.drain_check,
        (
            class(),
            slot_strategy(),
            order_strategy(max_order),
            prop_oneof![
                1 => Just(Target::None),
                2 => target_strategy()
            ],
        )
            .prop_map(|(class, slot, order, target)| Op::DrainCheck {
                class,
                slot,
                order: if target == Target::None { 0 } else { order },
                target,
            })
            .boxed(),
    ));
    alts.push((w.handoff, Just(Op::Handoff).boxed()));
    alts.push((w.validate, Just(Op::Validate).boxed()));
    let alts: Vec<_> = alts.into_iter().filter(|(w, _)| *w > 0).collect();
    proptest::strategy::Union::new_weighted(alts).boxed()
}
