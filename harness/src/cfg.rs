//! Allocator configurations and instances.

use llfree::{Alloc, Class, Classing, Init, LLFree, Policy, PolicyFn, TREE_FRAMES};
use serde::{Deserialize, Serialize};

use crate::buf::Bufs;

#[derive(Serialize, Deserialize, Clone, Copy, Debug, PartialEq, Eq, Hash)]
pub enum InitKind {
    FreeAll,
    AllocAll,
}

/// Class configurations. `slots[i]` = number of local slots of class `i`.
#[derive(Serialize, Deserialize, Clone, Debug, PartialEq, Eq, Hash)]
pub enum ClassKind {
    /// `Classing::simple`: classes 0,1; default 1.
    Simple([usize; 2]),
    /// `Classing::movable`: classes 0,1,2; default 2.
    Movable([usize; 3]),
    /// The repository's zeroed policy (eval/tests/integration.rs): classes 0,1,2; default 1.
    Zeroed([usize; 3]),
    /// A single class 0, default 0.
    Single(usize),
    /// Harness-defined policy that rates some pairs `Invalid` (C13 only).
    WithInvalid([usize; 3]),
    /// Like `Simple`, but the two classes carry the given (strictly increasing) ids below 8
    /// instead of 0 and 1. The repository's policies only compare ids, so the behaviour is the
    /// same; inside the harness classes stay numbered 0..n (see `ext`/`int`).
    SimpleIds([usize; 2], [u8; 2]),
    /// Like `Movable` with the given strictly increasing ids.
    MovableIds([usize; 3], [u8; 3]),
}

/// Policy of `Classing::simple` (taken from the repository at run time).
pub fn simple_policy() -> PolicyFn {
    Classing::simple(1).0.policy
}
pub fn movable_policy() -> PolicyFn {
    Classing::movable(1).0.policy
}
/// Classes (0,2) and (2,0) cannot use each other, otherwise like `simple`.
fn invalid_policy(requested: Class, target: Class, free: usize) -> Policy {
    if (requested.0 == 0 && target.0 == 2) || (requested.0 == 2 && target.0 == 0) {
        return Policy::Invalid;
    }
    if requested.0 > target.0 {
        return Policy::Steal;
    } else if requested.0 < target.0 {
        return Policy::Demote;
    }
    match free {
        f if f >= TREE_FRAMES / 2 => Policy::Match(1),
        f if f >= TREE_FRAMES / 64 => Policy::Match(u8::MAX),
        _ => Policy::Match(0),
    }
}

impl ClassKind {
    pub fn slots(&self) -> Vec<usize> {
        match self {
            ClassKind::Simple(s) | ClassKind::SimpleIds(s, _) => s.to_vec(),
            ClassKind::Movable(s) | ClassKind::Zeroed(s) | ClassKind::WithInvalid(s) | ClassKind::MovableIds(s, _) => s.to_vec(),
            ClassKind::Single(s) => vec![*s],
        }
    }
    pub fn classes(&self) -> usize {
        self.slots().len()
    }
    pub fn default_class(&self) -> u8 {
        match self {
            ClassKind::Simple(_) | ClassKind::SimpleIds(..) => 1,
            ClassKind::Movable(_) | ClassKind::MovableIds(..) => 2,
            ClassKind::Zeroed(_) => 1,
            ClassKind::Single(_) => 0,
            ClassKind::WithInvalid(_) => 1,
        }
    }
    pub fn policy(&self) -> PolicyFn {
        match self {
            ClassKind::Simple(_) | ClassKind::Zeroed(_) | ClassKind::Single(_) | ClassKind::SimpleIds(..) => simple_policy(),
            ClassKind::Movable(_) | ClassKind::MovableIds(..) => movable_policy(),
            ClassKind::WithInvalid(_) => invalid_policy,
        }
    }
    /// Class ids as the allocator sees them, by harness class number.
    pub fn ids(&self) -> Vec<u8> {
        match self {
            ClassKind::SimpleIds(_, ids) => ids.to_vec(),
            ClassKind::MovableIds(_, ids) => ids.to_vec(),
            _ => (0..self.classes() as u8).collect(),
        }
    }
    /// harness class number -> class id of the allocator
    pub fn ext(&self, class: u8) -> u8 {
        match self {
            ClassKind::SimpleIds(_, ids) => ids[class as usize],
            ClassKind::MovableIds(_, ids) => ids[class as usize],
            _ => class,
        }
    }
    pub fn classing(&self) -> Classing {
        let ids = self.ids();
        let mut classes: Vec<(Class, usize)> = self
            .slots()
            .iter()
            .enumerate()
            .map(|(i, &n)| (Class(ids[i]), n))
            .collect();
        // The position of a class in the list has no meaning in the interface (classes are named
        // by id). Vary it with the slot counts so that generated configurations also cover lists
        // that are not sorted by id; the same ClassKind always gives the same list.
        let rot = self.slots().iter().sum::<usize>() % classes.len();
        classes.rotate_left(rot);
        Classing::new(&classes, Class(self.ext(self.default_class())), self.policy())
    }
    pub fn has_invalid(&self) -> bool {
        matches!(self, ClassKind::WithInvalid(_))
    }
}

#[derive(Serialize, Deserialize, Clone, Debug, PartialEq, Eq, Hash)]
pub struct Config {
    pub frames: usize,
    pub init: InitKind,
    pub classes: ClassKind,
}

impl Config {
    pub fn trees(&self) -> usize {
        self.frames.div_ceil(TREE_FRAMES)
    }
}

/// A live allocator together with the buffers it borrows.
pub struct Inst {
    // Field order matters: `alloc` is dropped before `bufs`.
    pub alloc: LLFree<'static>,
    pub bufs: Bufs,
    pub classing: Classing,
    /// class ids of the allocator by harness class number
    pub ids: Vec<u8>,
}

impl Inst {
    /// class id reported by the allocator -> harness class number (0xff: not a configured id)
    pub fn int(&self, id: u8) -> u8 {
        self.ids.iter().position(|&i| i == id).map_or(0xff, |p| p as u8)
    }
}

impl Inst {
    pub fn build(cfg: &Config) -> llfree::Result<Self> {
        let init = match cfg.init {
            InitKind::FreeAll => Init::FreeAll,
            InitKind::AllocAll => Init::AllocAll,
        };
        Self::build_with(cfg.frames, init, &cfg.classes, None)
    }

    /// Build over fresh (zeroed) buffers or over the given ones.
    pub fn build_with(
        frames: usize,
        init: Init,
        classes: &ClassKind,
        bufs: Option<Bufs>,
    ) -> llfree::Result<Self> {
        let classing = classes.classing();
        let ms = LLFree::metadata_size(&classing, frames);
        let bufs = bufs.unwrap_or_else(|| Bufs::new(&ms));
        let meta = unsafe { bufs.meta() };
        let alloc = LLFree::new(frames, init, &classing, meta)?;
        Ok(Self {
            alloc,
            bufs,
            classing,
            ids: classes.ids(),
        })
    }
}
