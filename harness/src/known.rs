//! Known findings (committed file, read-only at run time).

use std::sync::OnceLock;

use serde::Deserialize;

#[derive(Deserialize, Clone, Debug)]
pub struct Finding {
    pub property: String,
    /// "known" suppresses (prints KNOWN-FINDING), "fixed" suppresses nothing
    pub status: String,
    /// short identifier used in KNOWN-FINDING lines and evidence
    pub id: String,
    /// every listed substring must occur in the violation message
    #[serde(default)]
    pub msg_contains: Vec<String>,
    pub what: String,
    #[serde(default)]
    pub commit: Option<String>,
}

#[derive(Deserialize, Clone, Debug, Default)]
pub struct KnownFile {
    pub findings: Vec<Finding>,
}

static KNOWN: OnceLock<KnownFile> = OnceLock::new();

pub fn load(path: Option<&str>) {
    let kf = path
        .and_then(|p| std::fs::read_to_string(p).ok())
        .map(|s| serde_json::from_str::<KnownFile>(&s).expect("known_findings.json is malformed"))
        .unwrap_or_default();
    let _ = KNOWN.set(kf);
}

/// Returns the id of a listed, still-open finding of `property` matching `msg`.
pub fn matches(property: &str, msg: &str) -> Option<&'static Finding> {
    KNOWN.get()?.findings.iter().find(|f| {
        f.status == "known"
            && f.property == property
            && !f.msg_contains.is_empty()
            && f.msg_contains.iter().all(|s| msg.contains(s.as_str()))
    })
}

pub fn open_findings(property: &str) -> Vec<&'static Finding> {
    KNOWN
        .get()
        .map(|k| {
            k.findings
                .iter()
                .filter(|f| f.status == "known" && f.property == property)
                .collect()
        })
        .unwrap_or_default()
}
