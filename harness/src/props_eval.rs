//! Evaluation-crate properties: C19 (class configurations) and C20 (trace replay binary).

use std::collections::BTreeMap;
use std::io::Write;
use std::path::PathBuf;
use std::process::Command;

use llfree::{Alloc, Class, Classing, FrameId, HUGE_ORDER, Init, LLFree, MetaData, Request, TREE_ORDER};
use llfree_eval::classes::ClassingConfig;
use proptest::prelude::*;
use serde::{Deserialize, Serialize};

use crate::cfg::Inst;
use crate::known;
use crate::panics::guarded;
use crate::runner::*;
use crate::{Ctx, Finish};

// =======================================================================================
// C19

// every flag eval/src/gfp.rs names (the first eight in the order older replay files index them)
const GFP_NAMES: [(&str, u32); 25] = [
    ("DMA", 0x01),
    ("HIGHMEM", 0x02),
    ("MOVABLE", 0x08),
    ("RECLAIMABLE", 0x10),
    ("FS", 0x80),
    ("NOFAIL", 0x8000),
    ("NORETRY", 0x10000),
    ("PAGE_CACHE", 0x10000000),
    ("DMA32", 0x04),
    ("HIGH", 0x20),
    ("IO", 0x40),
    ("ZERO", 0x100),
    ("ATOMIC", 0x200),
    ("DIRECT_RECLAIM", 0x400),
    ("KSWAPD_RECLAIM", 0x800),
    ("WRITE", 0x1000),
    ("NOWARN", 0x2000),
    ("RETRY_MAYFAIL", 0x4000),
    ("MEMALLOC", 0x20000),
    ("COMP", 0x40000),
    ("NOMEMALLOC", 0x80000),
    ("HARDWALL", 0x100000),
    ("THISNODE", 0x200000),
    ("ACCOUNT", 0x400000),
    ("ZEROTAGS", 0x800000),
];
const COUNT_NAMES: [&str; 5] = ["zero", "one", "cores", "cores_half", "pids"];

#[derive(Serialize, Deserialize, Clone, Debug, Hash, PartialEq, Eq)]
pub enum GenMatch {
    On(u8),
    Off(u8),
    All(Vec<GenMatch>),
    Any(Vec<GenMatch>),
    Not(Box<GenMatch>),
}
impl GenMatch {
    fn json(&self) -> String {
        match self {
            GenMatch::On(f) => format!("{{\"on\":\"{}\"}}", GFP_NAMES[*f as usize % GFP_NAMES.len()].0),
            GenMatch::Off(f) => format!("{{\"off\":\"{}\"}}", GFP_NAMES[*f as usize % GFP_NAMES.len()].0),
            GenMatch::All(v) => format!(
                "{{\"all\":[{}]}}",
                v.iter().map(|m| m.json()).collect::<Vec<_>>().join(",")
            ),
            GenMatch::Any(v) => format!(
                "{{\"any\":[{}]}}",
                v.iter().map(|m| m.json()).collect::<Vec<_>>().join(",")
            ),
            GenMatch::Not(m) => format!("{{\"not\":{}}}", m.json()),
        }
    }
}

#[derive(Serialize, Deserialize, Clone, Debug, Hash, PartialEq, Eq)]
pub struct GenClass {
    pub id: u8,
    pub count: u8,
    pub order: Option<(u8, u8)>,
    pub gfp: Option<GenMatch>,
}

#[derive(Serialize, Deserialize, Clone, Debug, Hash, PartialEq, Eq)]
pub struct ClassCase {
    /// generated configuration, or the name of a shipped results/classes*.json
    pub classes: Vec<GenClass>,
    pub shipped: Option<String>,
    pub default_idx: u8,
    pub cores: usize,
    /// (order, core, pid, gfp): gfp below 256 = index set over the first eight named flags,
    /// otherwise the raw flag word
    pub requests: Vec<(u8, u8, u8, u32)>,
}

impl ClassCase {
    fn json(&self) -> String {
        let classes: Vec<String> = self
            .classes
            .iter()
            .map(|c| {
                let mut s = format!("{{\"id\":{},\"count\":\"{}\"", c.id, COUNT_NAMES[c.count as usize % 5]);
                if let Some((a, b)) = c.order {
                    s += &format!(",\"order\":[{},{}]", a.min(b), a.max(b));
                }
                if let Some(g) = &c.gfp {
                    s += &format!(",\"gfp\":{}", g.json());
                }
                s + "}"
            })
            .collect();
        let default = self.classes[self.default_idx as usize % self.classes.len()].id;
        format!(
            "{{\"classes\":[{}],\"default\":{default},\"perfect\":[64,2047],\"good\":[2048,4095]}}",
            classes.join(",")
        )
    }
}

fn gfp_bits(sel: u32) -> u32 {
    if sel >= 256 {
        return sel;
    }
    // a subset of the first eight named flags
    (0..8).filter(|i| sel >> i & 1 == 1).map(|i| GFP_NAMES[i].1).sum()
}

fn c19_check(c: &ClassCase) -> Result<(bool, Vec<&'static str>), String> {
    let text = match &c.shipped {
        Some(name) => std::fs::read_to_string(format!("/repo/results/{name}"))
            .map_err(|e| format!("[SETUP] cannot read shipped config {name}: {e}"))?,
        None => c.json(),
    };
    let cfg: ClassingConfig = match facet_json::from_str(&text) {
        Ok(c) => c,
        // not a configuration the evaluation harness accepts
        Err(e) => return Err(format!("[SETUP] config rejected by the harness parser: {e}")),
    };
    let cores = c.cores.clamp(1, 16);
    let classing: Classing = guarded(|| cfg.classing(cores))
        .map_err(|p| format!("[C19] classing({cores}) panicked: {} at {}:{}", p.msg, p.file, p.line))?;
    // slot count per class as the allocator sees it (the last entry of an id wins)
    let mut slots: BTreeMap<u8, usize> = BTreeMap::new();
    for (cl, n) in classing.classes() {
        slots.insert(cl.0, *n);
    }
    let frames = 6 * llfree::TREE_FRAMES;
    let ms = LLFree::metadata_size(&classing, frames);
    let bufs = crate::buf::Bufs::new(&ms);
    let alloc = guarded(|| LLFree::new(frames, Init::FreeAll, &classing, unsafe { bufs.meta() }))
        .map_err(|p| format!("[C19] LLFree::new with the generated classing panicked: {}", p.msg))?
        .map_err(|e| format!("[C19] LLFree::new with the generated classing failed: {e:?}"))?;
    let mut kinds = vec![];
    for &(order, core, pid, gsel) in &c.requests {
        let (order, core, pid) = (order as usize % 11, core as usize % 65, pid as usize % 65);
        let gfp = gfp_bits(gsel);
        let req: Request = guarded(|| cfg.request(order, core, cores, pid, gfp))
            .map_err(|p| format!("[C19] request(order={order}, core={core}, cores={cores}, pid={pid}, gfp={gfp:#x}) panicked: {}", p.msg))?;
        let Some(&n) = slots.get(&req.class.0) else {
            return Err(format!(
                "[C19] request(order={order}, core={core}, cores={cores}, pid={pid}, gfp={gfp:#x}) names class {} which is not configured ({:?})",
                req.class.0,
                classing.classes()
            ));
        };
        if let Some(l) = req.local
            && l >= n
        {
            return Err(format!(
                "[C19] request(order={order}, core={core}, cores={cores}, pid={pid}, gfp={gfp:#x}) = class {} slot {l}, but that class has only {n} slot(s); config: {text}",
                req.class.0
            ));
        }
        // the allocator serves the request without panicking
        let r = guarded(|| {
            let r = alloc.get(None, req);
            if let Ok((f, _)) = r {
                alloc.put(f, req).expect("free of a just allocated block");
            }
            r
        })
        .map_err(|p| format!("[C19] allocator panicked serving request {req:?}: {} at {}:{}", p.msg, p.file, p.line))?;
        if order > TREE_ORDER && r.is_ok() {
            return Err(format!("[C19] order {order} > TREE_ORDER served"));
        }
    }
    let nontrivial = c.shipped.is_none() && c.classes.iter().any(|k| k.count % 5 != 2);
    if c.classes.iter().any(|k| k.count % 5 == 1) {
        kinds.push("kind_one");
    }
    if c.classes.iter().any(|k| k.count % 5 == 0) {
        kinds.push("kind_zero");
    }
    if c.classes.iter().any(|k| k.count % 5 == 3) {
        kinds.push("kind_cores_half");
    }
    if c.classes.iter().any(|k| k.count % 5 == 4) {
        kinds.push("kind_pids");
    }
    if c.shipped.is_some() {
        kinds.push("shipped_config");
    }
    drop(alloc);
    drop(bufs);
    let _ = Inst::build;
    Ok((nontrivial, kinds))
}

fn match_strategy() -> BoxedStrategy<GenMatch> {
    let leaf = prop_oneof![(0u8..8).prop_map(GenMatch::On), (0u8..8).prop_map(GenMatch::Off)];
    leaf.prop_recursive(3, 12, 3, |inner| {
        prop_oneof![
            prop::collection::vec(inner.clone(), 0..3).prop_map(GenMatch::All),
            prop::collection::vec(inner.clone(), 0..3).prop_map(GenMatch::Any),
            inner.prop_map(|m| GenMatch::Not(Box::new(m))),
        ]
    })
    .boxed()
}

fn class_case_strategy() -> BoxedStrategy<ClassCase> {
    let shipped = prop::sample::select(vec![
        "classes.json",
        "classes-cache.json",
        "classes-ilong.json",
        "classes-long.json",
        "classes-movable.json",
        "classes-pid.json",
        "classes-recache.json",
    ]);
    // any flag word: subsets of the first eight named flags, arbitrary 32-bit words, and unions
    // of a few named flags (all 25)
    let gfp = || {
        prop_oneof![
            1 => 0u32..256,
            2 => any::<u32>(),
            2 => prop::collection::vec(0usize..GFP_NAMES.len(), 0..4)
                .prop_map(|v| {
                    let w = v.into_iter().map(|i| GFP_NAMES[i].1).fold(0u32, |a, b| a | b);
                    // words below 256 are read as index sets (older files): add ZERO (0x100)
                    if w < 256 { w | 0x100 } else { w }
                }),
        ]
    };
    let reqs = move || prop::collection::vec((0u8..11, any::<u8>(), any::<u8>(), gfp()), 1..24);
    let generated = (
        // distinct ids 0..7
        Just((0u8..8).collect::<Vec<u8>>()).prop_shuffle(),
        prop::collection::vec(
            (
                0u8..5,
                prop::option::of((0u8..11, 0u8..11)),
                prop::option::of(match_strategy()),
            ),
            1..=4,
        ),
        any::<u8>(),
        1usize..=16,
        reqs(),
    )
        .prop_map(|(ids, cls, default_idx, cores, requests)| ClassCase {
            classes: cls
                .into_iter()
                .enumerate()
                .map(|(i, (count, order, gfp))| GenClass {
                    id: ids[i],
                    count,
                    order,
                    gfp,
                })
                .collect(),
            shipped: None,
            default_idx,
            cores,
            requests,
        });
    let ship = (shipped, 1usize..=16, reqs()).prop_map(|(name, cores, requests)| ClassCase {
        classes: vec![],
        shipped: Some(name.to_string()),
        default_idx: 0,
        cores,
        requests,
    });
    prop_oneof![9 => generated, 1 => ship].boxed()
}

pub fn run_c19(ctx: &Ctx) -> Finish {
    let thorough = ctx.tier == "thorough";
    let mut ev = Evidence::new(
        "C19",
        &ctx.tier,
        ctx.seed,
        "exploration",
        "generated ClassingConfig JSON (1-4 classes with distinct ids 0..7, every slot-count kind zero/one/cores/cores_half/pids, optional order ranges, nested GFP matchers up to depth 3) parsed by the evaluation crate's own facet_json path, plus the seven shipped results/classes*.json; per config 1-24 requests over orders 0..10, core and pid 0..64, core count 1..16, GFP words from subsets of the named flags (all 25 of eval/src/gfp.rs) to arbitrary 32-bit values. Oracle: the request's class is configured and its slot is None or below that class's slot count as the allocator sees it; then an LLFree built from that classing serves get/put of the request without panicking. Non-trivial = generated config containing a kind other than `cores`; distinct by case hash.",
    );
    ev.assumptions.push("configurations with duplicate class ids are taken only from the shipped files (where duplicates carry the same slot-count kind)".into());
    // the policy of ClassingConfig::classing() lives in process-wide statics: run on one thread
    let (stats, f) = run_proptest(
        ctx.seed,
        ctx.scale(if thorough { 400_000 } else { 30_000 }),
        class_case_strategy,
        |c| match c19_check(c) {
            Err(m) if m.starts_with("[SETUP]") => Verdict::Abort("config not accepted / unreadable".into()),
            Err(m) => match known::matches("C19", &m) {
                Some(k) => Verdict::Known(k.id.clone()),
                None => Verdict::Fail(m),
            },
            Ok((nt, classes)) => Verdict::Pass { nontrivial: nt, classes },
        },
    );
    ev.stats.merge(stats);
    if let Some(f) = f {
        return ctx.fail(ev, "classcfg", &f.case, f.msg);
    }
    ctx.pass(ev)
}

pub fn replay_class(c: &ClassCase) -> Option<String> {
    println!("config: {}", if c.shipped.is_some() { format!("{:?}", c.shipped) } else { c.json() });
    c19_check(c).err()
}

// =======================================================================================
// C20

#[derive(Serialize, Deserialize, Clone, Debug, Hash, PartialEq, Eq)]
pub enum TraceOp {
    /// allocate `order` at a free aligned trace position chosen by fraction
    Alloc { order: u8, pos: u16, core: u8, movable: bool },
    /// free a whole held trace allocation
    Free { idx: u16, core: u8 },
    /// free a part of a held trace allocation (`down` orders smaller, fractional part index)
    FreePart { idx: u16, down: u8, part: u16, core: u8 },
    /// free something the trace never allocated
    FreeUnknown { order: u8, pos: u16, core: u8 },
    /// free something the trace does not hold, directly before/after a held allocation
    FreeNear { idx: u16, after: bool, order: u8, core: u8 },
}

#[derive(Serialize, Deserialize, Clone, Debug, Hash, PartialEq, Eq)]
pub struct TraceCase {
    pub cores: u8,
    pub ops: Vec<TraceOp>,
    /// bit i%64 set: event i carries the same time stamp as event i-1 if both were recorded by
    /// the same core into the same trace page (the recorder's clock has microsecond resolution
    /// and the replayer keeps times as f32 seconds, so neighbours on one core do collide). Their
    /// order in the page is then the only order there is, and the replayer must keep it.
    #[serde(default)]
    pub ties: u64,
}

#[derive(Clone, Debug)]
struct Event {
    alloc: bool,
    pfn: usize,
    order: usize,
    core: usize,
    flags: u32,
}

const TRACE_TREES: usize = 64;
const MAX_PFN: usize = TRACE_TREES * llfree::TREE_FRAMES; // managed frames of the replayer
const GFP_MOVABLE: u32 = 0x08;

/// Resolve the abstract ops into concrete trace events (trace-level bookkeeping only).
fn resolve(c: &TraceCase) -> (Vec<Event>, usize, bool, usize) {
    let cores = (c.cores as usize).clamp(1, 4);
    // trace-level held allocations: pfn -> order
    let mut held: Vec<(usize, usize, usize)> = Vec::new(); // (pfn, order, original allocation id)
    let mut next_id = 0usize;
    let mut marked: std::collections::HashSet<usize> = std::collections::HashSet::new();
    let mut occupied = vec![false; MAX_PFN];
    let mut held_frames = 0usize;
    let mut events = Vec::new();
    let mut nontrivial = false;
    let mut near_unknown = false;
    let mut excluded = 0usize;
    for op in &c.ops {
        match *op {
            TraceOp::Alloc { order, pos, core, movable } => {
                let order = order as usize % 11;
                let len = 1usize << order;
                if held_frames + len > MAX_PFN / 8 {
                    excluded += 1;
                    continue;
                }
                let n = MAX_PFN / len;
                let start = ((pos as usize) * n) >> 16;
                let found = (0..n).map(|i| ((start + i) % n) * len).find(|&p| p != 0 && !occupied[p..p + len].iter().any(|o| *o));
                let Some(pfn) = found else { continue };
                occupied[pfn..pfn + len].fill(true);
                held.push((pfn, order, next_id));
                next_id += 1;
                held_frames += len;
                events.push(Event { alloc: true, pfn, order, core: core as usize % cores, flags: if movable { GFP_MOVABLE } else { 0 } });
            }
            TraceOp::Free { idx, core } => {
                if held.is_empty() {
                    continue;
                }
                let (pfn, order, id) = held.swap_remove(((idx as usize) * held.len()) >> 16);
                occupied[pfn..pfn + (1 << order)].fill(false);
                held_frames -= 1 << order;
                if marked.contains(&id) {
                    nontrivial = true;
                }
                events.push(Event { alloc: false, pfn, order, core: core as usize % cores, flags: 0 });
            }
            TraceOp::FreePart { idx, down, part, core } => {
                if held.is_empty() {
                    continue;
                }
                let (pfn, order, id) = held.swap_remove(((idx as usize) * held.len()) >> 16);
                let j = order.saturating_sub(down as usize % 11);
                let parts = 1usize << (order - j);
                let k = ((part as usize) * parts) >> 16;
                for q in 0..parts {
                    if q != k {
                        held.push((pfn + (q << j), j, id));
                    }
                }
                let p = pfn + (k << j);
                occupied[p..p + (1 << j)].fill(false);
                held_frames -= 1 << j;
                if marked.contains(&id) {
                    nontrivial = true;
                }
                if k > 0 && parts > 1 {
                    marked.insert(id);
                }
                events.push(Event { alloc: false, pfn: p, order: j, core: core as usize % cores, flags: 0 });
            }
            TraceOp::FreeUnknown { order, pos, core } => {
                let order = order as usize % 11;
                let len = 1usize << order;
                let n = MAX_PFN / len;
                let p = (((pos as usize) * n) >> 16) * len;
                // an unknown free must not overlap anything the trace holds (that would be a free
                // spanning held parts, which the property does not cover); being NEXT to a held
                // allocation is fine: no allocation covers it, so nothing may be freed
                if p == 0 || occupied[p..p + len].iter().any(|o| *o) {
                    excluded += 1;
                    continue;
                }
                events.push(Event { alloc: false, pfn: p, order, core: core as usize % cores, flags: 0 });
            }
            TraceOp::FreeNear { idx, after, order, core } => {
                // free of a never-allocated (or already freed) block right before/after a held one
                if held.is_empty() {
                    continue;
                }
                let (hp, ho, _) = held[((idx as usize) * held.len()) >> 16];
                let order = (order as usize % 11).min(ho);
                let len = 1usize << order;
                let p = if after { hp + (1 << ho) } else { hp.wrapping_sub(len) };
                if p == 0 || p >= MAX_PFN || p % len != 0 || p + len > MAX_PFN || occupied[p..p + len].iter().any(|o| *o) {
                    excluded += 1;
                    continue;
                }
                near_unknown = true;
                events.push(Event { alloc: false, pfn: p, order, core: core as usize % cores, flags: 0 });
            }
        }
    }
    (events, held_frames, nontrivial || near_unknown, excluded)
}

fn write_trace(path: &std::path::Path, events: &[Event], cores: usize, ties: u64) -> std::io::Result<usize> {
    const ENTRIES: usize = (4096 - 4) / 16;
    // distribute events to per-core page lists, keeping global order via timestamps
    let mut pages: Vec<(u32, Vec<u128>)> = Vec::new();
    let mut open: BTreeMap<usize, usize> = BTreeMap::new(); // core -> page index
    let mut last_time = 0u128;
    let mut tied = 0usize;
    for (i, e) in events.iter().enumerate() {
        // whole seconds: exact in f32, strictly increasing - except for requested ties between
        // neighbours that go to the same page of the same core
        let same_page = i > 0
            && events[i - 1].core == e.core
            && open.get(&e.core).is_some_and(|&pi| pages[pi].1.len() < ENTRIES);
        let time_us = if same_page && ties >> (i % 64) & 1 == 1 {
            tied += 1;
            last_time
        } else {
            (i as u128 + 1) * 1_000_000
        };
        last_time = time_us;
        let entry: u128 = time_us
            | ((e.pfn as u128) << 38)
            | ((e.alloc as u128) << 62)
            | ((e.order as u128) << 63)
            | ((e.flags as u128) << 67)
            | (0u128 << 96);
        let pi = match open.get(&e.core) {
            Some(&pi) if pages[pi].1.len() < ENTRIES => pi,
            _ => {
                pages.push((e.core as u32, Vec::new()));
                open.insert(e.core, pages.len() - 1);
                pages.len() - 1
            }
        };
        pages[pi].1.push(entry);
    }
    let mut f = std::io::BufWriter::new(std::fs::File::create(path)?);
    let mut header = vec![0u8; 4096];
    header[0..4].copy_from_slice(&(pages.len() as u32).to_le_bytes());
    header[4..8].copy_from_slice(&(cores as u32).to_le_bytes());
    header[8..12].copy_from_slice(&((MAX_PFN - 1) as u32).to_le_bytes());
    f.write_all(&header)?;
    for (cpu, entries) in &pages {
        let mut page = vec![0u8; 4096];
        page[0..4].copy_from_slice(&cpu.to_le_bytes());
        for (i, e) in entries.iter().enumerate() {
            page[16 + i * 16..32 + i * 16].copy_from_slice(&e.to_le_bytes());
        }
        f.write_all(&page)?;
    }
    f.flush()?;
    Ok(tied)
}

/// Reference replayer, written from the property statement: every free event releases
/// exactly the frames of the traced block inside its covering allocation.
fn reference(events: &[Event], cores: usize) -> Result<(usize, usize, Vec<String>), String> {
    let (classing, request) = Classing::movable(cores);
    let ms = LLFree::metadata_size(&classing, MAX_PFN);
    let meta = MetaData::alloc(&ms);
    let alloc = LLFree::new(MAX_PFN, Init::FreeAll, &classing, meta).map_err(|e| format!("{e:?}"))?;
    let mut present: BTreeMap<usize, (usize, usize)> = BTreeMap::new(); // pfn -> (frame, order)
    let mut frag = Vec::new();
    let snapshot = |alloc: &LLFree| -> String {
        (0..MAX_PFN >> HUGE_ORDER)
            .map(|i| {
                let free = alloc.stats_at(FrameId(i << HUGE_ORDER), HUGE_ORDER).free_frames;
                let level = if free == 0 { 0 } else { 1 + free / 64 };
                level.to_string()
            })
            .collect()
    };
    for e in events {
        frag.push(snapshot(&alloc));
        let req = request(e.order, e.core, e.flags & GFP_MOVABLE != 0);
        if e.alloc {
            let (frame, _) = alloc.get(None, req).map_err(|x| format!("reference get failed: {x:?}"))?;
            present.insert(e.pfn, (frame.0, e.order));
        } else {
            // covering allocation
            let cov = present
                .range(..=e.pfn)
                .next_back()
                .filter(|(p, (_, o))| e.pfn < **p + (1usize << *o) && *o >= e.order)
                .map(|(p, v)| (*p, *v));
            if let Some((a_pfn, (frame, order))) = cov {
                present.remove(&a_pfn);
                let len = 1usize << e.order;
                for q in 0..(1usize << (order - e.order)) {
                    let part_pfn = a_pfn + q * len;
                    if part_pfn != e.pfn {
                        present.insert(part_pfn, (frame + q * len, e.order));
                    }
                }
                let f = frame + (e.pfn - a_pfn);
                alloc
                    .put(FrameId(f), req)
                    .map_err(|x| format!("reference put({f}, order {}) failed: {x:?}", e.order))?;
            }
        }
    }
    frag.push(snapshot(&alloc));
    let s = alloc.stats();
    Ok((s.free_frames, s.free_huge, frag))
}

fn c20_check(c: &TraceCase, bin: &str, tmp: &std::path::Path) -> Result<(bool, Vec<&'static str>), String> {
    let (events, held_frames, nontrivial, excluded) = resolve(c);
    if events.is_empty() {
        return Ok((false, vec!["empty_trace"]));
    }
    let cores = (c.cores as usize).clamp(1, 4);
    let id = hash_of(c);
    let tid = std::thread::current().id();
    let trace = tmp.join(format!("trace-{id:016x}-{tid:?}.bin"));
    let frag = tmp.join(format!("frag-{id:016x}-{tid:?}.txt"));
    let tied = write_trace(&trace, &events, cores, c.ties).map_err(|e| format!("[SETUP] cannot write trace: {e}"))?;
    let out = Command::new(bin)
        .arg(&trace)
        .args(["--stride", "1", "--interval", "1", "--frag"])
        .arg(&frag)
        .env("RUST_LOG", "error")
        .output()
        .map_err(|e| format!("[SETUP] cannot run replay binary: {e}"))?;
    let frag_text = std::fs::read_to_string(&frag).unwrap_or_default();
    let _ = std::fs::remove_file(&trace);
    let _ = std::fs::remove_file(&frag);
    let stdout = String::from_utf8_lossy(&out.stdout).to_string();
    let stderr = String::from_utf8_lossy(&out.stderr).to_string();
    let describe = || {
        let ev: Vec<String> = events
            .iter()
            .map(|e| format!("{}(pfn={}, order={}, core={})", if e.alloc { "alloc" } else { "free" }, e.pfn, e.order, e.core))
            .collect();
        format!("trace: [{}]", ev.join(", "))
    };
    if !out.status.success() {
        return Err(format!(
            "[C20] replay exited with {:?}; stderr tail: {}; {}",
            out.status,
            stderr.lines().rev().take(3).collect::<Vec<_>>().join(" | "),
            describe()
        ));
    }
    if let Some(l) = stderr.lines().find(|l| l.contains("Free failed")) {
        return Err(format!("[C20] replayer logged a failed free: {}; {}", l.trim(), describe()));
    }
    let json: serde_json::Value = serde_json::from_str(stdout.trim())
        .map_err(|e| format!("[SETUP] cannot parse replay output: {e}: {stdout}"))?;
    let free = json["free_frames"].as_u64().unwrap_or(u64::MAX) as usize;
    let total = json["total_frames"].as_u64().unwrap_or(0) as usize;
    if total != MAX_PFN {
        return Err(format!("[SETUP] replay managed {total} frames, expected {MAX_PFN}"));
    }
    if free != MAX_PFN - held_frames {
        return Err(format!(
            "[C20] final free_frames = {free}, expected managed {MAX_PFN} - frames still held by the trace {held_frames} = {}; {}",
            MAX_PFN - held_frames,
            describe()
        ));
    }
    // differential: per-event fragmentation lines and free_huge against the reference replayer
    let (rfree, rhuge, rfrag) = reference(&events, cores).map_err(|e| format!("[SETUP] {e}"))?;
    if rfree != free {
        return Err(format!("[SETUP] reference replayer disagrees with the count oracle: {rfree} vs {free}"));
    }
    let huge = json["free_huge"].as_u64().unwrap_or(u64::MAX) as usize;
    let lines: Vec<&str> = frag_text.lines().collect();
    if lines.len() != rfrag.len() {
        return Err(format!("[C20] replay wrote {} fragmentation lines, reference {}; {}", lines.len(), rfrag.len(), describe()));
    }
    if let Some(i) = (0..lines.len()).find(|&i| lines[i] != rfrag[i]) {
        return Err(format!(
            "[C20] per-huge-frame free levels differ from the reference replayer before event {i} (a free released other frames than the traced block); {}",
            describe()
        ));
    }
    if huge != rhuge {
        return Err(format!("[C20] final free_huge = {huge}, reference {rhuge}; {}", describe()));
    }
    let mut classes = vec![];
    if excluded > 0 {
        classes.push("ops_excluded_by_construction");
    }
    if events.iter().any(|e| !e.alloc) {
        classes.push("has_free");
    }
    if tied > 0 {
        classes.push("equal_time_stamps_on_one_core");
    }
    Ok((nontrivial, classes))
}

fn trace_strategy() -> BoxedStrategy<TraceCase> {
    let order = || prop_oneof![4 => 0u8..4, 3 => 4u8..9, 3 => 9u8..11];
    let op = prop_oneof![
        10 => (order(), any::<u16>(), any::<u8>(), any::<bool>())
            .prop_map(|(order, pos, core, movable)| TraceOp::Alloc { order, pos, core, movable }),
        5 => (any::<u16>(), any::<u8>()).prop_map(|(idx, core)| TraceOp::Free { idx, core }),
        6 => (any::<u16>(), 1u8..4, any::<u16>(), any::<u8>())
            .prop_map(|(idx, down, part, core)| TraceOp::FreePart { idx, down, part, core }),
        1 => (order(), any::<u16>(), any::<u8>()).prop_map(|(order, pos, core)| TraceOp::FreeUnknown { order, pos, core }),
        2 => (any::<u16>(), any::<bool>(), 0u8..4, any::<u8>()).prop_map(|(idx, after, order, core)| TraceOp::FreeNear { idx, after, order, core }),
    ];
    (
        1u8..=4,
        prop::collection::vec(op, 1..90),
        prop_oneof![2 => Just(0u64), 1 => any::<u64>(), 1 => Just(u64::MAX)],
    )
        .prop_map(|(cores, ops, ties)| TraceCase { cores, ops, ties })
        .boxed()
}

pub fn run_c20(ctx: &Ctx, bin: Option<String>, tmp: PathBuf) -> Finish {
    let Some(bin) = bin else {
        return Finish::Inconclusive("no --replay-bin given".into());
    };
    if cfg!(any(feature = "16K", feature = "tree_huge_1", feature = "tree_huge_2", feature = "tree_huge_8")) {
        return Finish::Inconclusive("C20 runs in the default geometry only (the replay binary is built with default features)".into());
    }
    std::fs::create_dir_all(&tmp).unwrap();
    let thorough = ctx.tier == "thorough";
    let mut ev = Evidence::new(
        "C20",
        &ctx.tier,
        ctx.seed,
        "exploration",
        "generated synthetic binary traces (header page + per-core pages of 128-bit entries, whole-second increasing timestamps, in half of the cases with equal stamps on neighbouring events of one core, 1-4 cores, <90 events): allocations of orders 0..10 at non-overlapping aligned trace pfns, whole frees, partial frees of first/middle/last parts (and nested partial frees of remaining parts), frees of never-allocated pfns; total held <= 1/8 of the 64-tree zone. Each trace is replayed by the built `replay` binary out of process (--frag, --interval 1). Oracles: exit status 0, no 'Free failed' log line, final free_frames == managed - frames the trace still holds, and (differential) every per-event fragmentation line and the final free_huge equal those of an in-process reference replayer written from the property statement on the same allocator library. Excluded by construction and counted: frees spanning several already-split parts, re-allocation at a held pfn, frees of unknown pfns inside a tree the trace holds something in. Non-trivial = trace with a partial free of a middle or last part followed by a free of another part of the same allocation; distinct by case hash.",
    );
    ev.assumptions.push("the replay binary is built from /repo's working tree with default features; allocator behaviour is deterministic for a fixed single-threaded call sequence (used by the differential oracle)".into());
    let (stats, f) = run_proptest(
        ctx.seed,
        ctx.scale(if thorough { 60_000 } else { 2_500 }),
        trace_strategy,
        |c| match c20_check(c, &bin, &tmp) {
            Err(m) if m.starts_with("[SETUP]") => Verdict::Abort(m.chars().take(60).collect()),
            Err(m) => match known::matches("C20", &m) {
                Some(k) => Verdict::Known(k.id.clone()),
                None => Verdict::Fail(m),
            },
            Ok((nt, classes)) => Verdict::Pass { nontrivial: nt, classes },
        },
    );
    ev.stats.merge(stats);
    if let Some(f) = f {
        return ctx.fail(ev, "trace", &f.case, f.msg);
    }
    ctx.pass(ev)
}

pub fn replay_trace(c: &TraceCase, bin: Option<String>, tmp: PathBuf) -> Option<String> {
    let bin = bin?;
    std::fs::create_dir_all(&tmp).ok()?;
    let (events, held, _, _) = resolve(c);
    for e in &events {
        println!("{e:?}");
    }
    println!("held frames at the end: {held}");
    c20_check(c, &bin, &tmp).err()
}

#[allow(dead_code)]
fn _unused(_: Class) {}
