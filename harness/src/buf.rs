//! Metadata buffers of exact size that end at a PROT_NONE guard page.
//!
//! An access beyond the end of a buffer is a SIGSEGV, which the crash handler
//! (see `crash.rs`) reports together with the current case.

use llfree::{MetaData, MetaSize};

const PAGE: usize = 4096;

/// An mmap'ed buffer `[guard | slack.. data | guard]`, data ends at the guard.
pub struct GuardBuf {
    map: *mut u8,
    map_len: usize,
    ptr: *mut u8,
    len: usize,
}
unsafe impl Send for GuardBuf {}

thread_local! {
    /// Per-thread pool of mappings (mmap/munmap from 16 threads serialize on the mm lock).
    static POOL: std::cell::RefCell<std::collections::HashMap<usize, Vec<(usize, usize, usize)>>> =
        std::cell::RefCell::new(std::collections::HashMap::new());
}

impl GuardBuf {
    /// A zeroed buffer of exactly `len` bytes (possibly recycled).
    pub fn new(len: usize) -> Self {
        if cfg!(feature = "asan") {
            // exact heap allocation: AddressSanitizer puts red zones on both sides
            let ptr = if len == 0 {
                64 as *mut u8 // aligned, never dereferenceable
            } else {
                unsafe { std::alloc::alloc_zeroed(std::alloc::Layout::from_size_align(len, 64).unwrap()) }
            };
            return Self {
                map: core::ptr::null_mut(),
                map_len: 0,
                ptr,
                len,
            };
        }
        let cached = POOL.with(|p| p.borrow_mut().get_mut(&len).and_then(|v| v.pop()));
        if let Some((map, map_len, ptr)) = cached {
            let b = Self {
                map: map as *mut u8,
                map_len,
                ptr: ptr as *mut u8,
                len,
            };
            unsafe { core::ptr::write_bytes(b.ptr, 0, len) };
            return b;
        }
        Self::map_new(len)
    }

    fn map_new(len: usize) -> Self {
        assert!(len % 64 == 0, "metadata sizes are multiples of 64");
        let body = len.next_multiple_of(PAGE).max(PAGE);
        let map_len = body + 2 * PAGE;
        let map = unsafe {
            libc::mmap(
                core::ptr::null_mut(),
                map_len,
                libc::PROT_READ | libc::PROT_WRITE,
                libc::MAP_PRIVATE | libc::MAP_ANONYMOUS,
                -1,
                0,
            )
        };
        assert!(map != libc::MAP_FAILED, "mmap failed");
        let map = map.cast::<u8>();
        unsafe {
            assert_eq!(libc::mprotect(map.cast(), PAGE, libc::PROT_NONE), 0);
            assert_eq!(
                libc::mprotect(map.add(PAGE + body).cast(), PAGE, libc::PROT_NONE),
                0
            );
        }
        let ptr = unsafe { map.add(PAGE + body - len) };
        Self {
            map,
            map_len,
            ptr,
            len,
        }
    }
    pub fn addr(&self) -> usize {
        self.ptr as usize
    }
    pub fn len(&self) -> usize {
        self.len
    }
    pub fn bytes(&self) -> &[u8] {
        unsafe { core::slice::from_raw_parts(self.ptr, self.len) }
    }
    pub fn fill(&mut self, v: u8) {
        unsafe { core::ptr::write_bytes(self.ptr, v, self.len) }
    }
    pub fn copy_from(&mut self, src: &[u8]) {
        assert_eq!(src.len(), self.len);
        unsafe { core::ptr::copy_nonoverlapping(src.as_ptr(), self.ptr, self.len) }
    }
    /// Hand out the buffer as a `'static` slice. The caller must make sure
    /// that `self` outlives every user of the slice.
    pub unsafe fn slice(&self) -> &'static mut [u8] {
        unsafe { core::slice::from_raw_parts_mut(self.ptr, self.len) }
    }
}
impl Drop for GuardBuf {
    fn drop(&mut self) {
        if self.map.is_null() {
            if self.len > 0 {
                unsafe {
                    std::alloc::dealloc(self.ptr, std::alloc::Layout::from_size_align(self.len, 64).unwrap())
                };
            }
            return;
        }
        let entry = (self.map as usize, self.map_len, self.ptr as usize);
        let len = self.len;
        let kept = POOL
            .try_with(|p| {
                let mut p = p.borrow_mut();
                let v = p.entry(len).or_default();
                if v.len() < 16 {
                    v.push(entry);
                    true
                } else {
                    false
                }
            })
            .unwrap_or(false);
        if !kept {
            unsafe { libc::munmap(self.map.cast(), self.map_len) };
        }
    }
}

/// The three metadata buffers of one allocator instance.
pub struct Bufs {
    pub local: GuardBuf,
    pub trees: GuardBuf,
    pub lower: GuardBuf,
}
impl Bufs {
    pub fn new(m: &MetaSize) -> Self {
        Self {
            local: GuardBuf::new(m.local),
            trees: GuardBuf::new(m.trees),
            lower: GuardBuf::new(m.lower),
        }
    }
    /// Fresh buffers holding a byte copy of `other`.
    pub fn copy_of(other: &Bufs) -> Self {
        let mut n = Self {
            local: GuardBuf::new(other.local.len()),
            trees: GuardBuf::new(other.trees.len()),
            lower: GuardBuf::new(other.lower.len()),
        };
        n.local.copy_from(other.local.bytes());
        n.trees.copy_from(other.trees.bytes());
        n.lower.copy_from(other.lower.bytes());
        n
    }
    pub unsafe fn meta(&self) -> MetaData<'static> {
        unsafe {
            MetaData {
                local: self.local.slice(),
                trees: self.trees.slice(),
                lower: self.lower.slice(),
            }
        }
    }
}
