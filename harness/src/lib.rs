//! vfh: verification harness binary (one build per geometry).
//!
//! vfh check <PROP> --tier quick|thorough --seed N --out <evidence part> --replay-dir <dir> --known <file>
//! vfh replay <file>

#![allow(dead_code)]
pub mod buf;
pub mod cfg;
pub mod crash;
pub mod decode;
pub mod e1;
pub mod e2;
pub mod gen_cfg;
pub mod known;
pub mod model;
pub mod ops;
pub mod panics;
pub mod props_c18;
pub mod props_conc;
pub mod props_eval;
pub mod props_seq;
pub mod props_unit;
pub mod props_unit2;
pub mod runner;

use std::path::PathBuf;

use serde::Serialize;
use serde_json::{Value, json};

use runner::Evidence;

pub fn geometry_name() -> String {
    format!(
        "frame={}K huge_order={} tree_huge={}",
        llfree::FRAME_SIZE / 1024,
        llfree::HUGE_ORDER,
        llfree::TREE_HUGE
    )
}

pub struct Ctx {
    pub prop: String,
    pub tier: String,
    pub seed: u64,
    pub out: Option<PathBuf>,
    pub replay_dir: PathBuf,
    /// budget scale in percent (vf passes smaller values for secondary geometries)
    pub scale_pct: u64,
}

pub enum Finish {
    Pass,
    Violation,
    Inconclusive(String),
}

impl Ctx {
    /// Generated-case budget: the per-driver base number, times the tier multiplier (the quick
    /// tier runs 6x the base so that it is fixed, substantial work: 20-90 s per check on 16
    /// cores), times the geometry share passed by `vf`.
    pub fn scale(&self, n: u64) -> u64 {
        let mult = if self.tier == "quick" {
            match self.prop.as_str() {
                "C11" | "C20" => 2, // expensive cases (exhaust-heavy histories, one process per trace)
                "C23" => 2,
                "C04" | "C05" | "C07" | "C09" | "C18" => 6,
                _ => 18,
            }
        } else {
            1
        };
        (n * mult * self.scale_pct / 100).max(16)
    }
    fn write_evidence(&self, ev: &Evidence, violations: u64) {
        if let Some(out) = &self.out {
            let v = ev.to_json(violations);
            std::fs::write(out, serde_json::to_string_pretty(&v).unwrap()).unwrap();
        }
    }
    pub fn pass(&self, ev: Evidence) -> Finish {
        for (k, n) in &ev.stats.known {
            let what = known::open_findings(&self.prop)
                .iter()
                .find(|f| &f.id == k)
                .map(|f| f.what.chars().take(220).collect::<String>())
                .unwrap_or_default();
            println!("KNOWN-FINDING: property={} {k}: {what} (hit {n} times)", self.prop);
        }
        self.write_evidence(&ev, 0);
        crash::finish_current();
        if ev.stats.evaluations > 0
            && ev.stats.aborted.values().sum::<u64>() + ev.stats.known.values().sum::<u64>()
                >= ev.stats.evaluations
        {
            return Finish::Inconclusive("every case was aborted or hit a known finding".into());
        }
        Finish::Pass
    }
    pub fn fail<C: Serialize>(&self, ev: Evidence, engine: &str, case: &C, msg: String) -> Finish {
        let case_v = serde_json::to_value(case).unwrap();
        let h = runner::hash_of(&case_v.to_string());
        std::fs::create_dir_all(&self.replay_dir).unwrap();
        let path = self
            .replay_dir
            .join(format!("{}-{:016x}.json", self.prop, h));
        let doc = json!({
            "property": self.prop,
            "engine": engine,
            "geometry": geometry_name(),
            "features": geometry_features(),
            "message": msg,
            "case": case_v,
        });
        std::fs::write(&path, serde_json::to_string_pretty(&doc).unwrap()).unwrap();
        println!("violation: {msg}");
        println!("VIOLATION property={} replay={}", self.prop, path.display());
        self.write_evidence(&ev, 1);
        Finish::Violation
    }
}

/// Replay document of the case a worker is about to execute (written by the fault handler).
pub fn fault_doc<C: Serialize>(prop: &str, engine: &str, case: &C) -> String {
    json!({
        "property": prop,
        "engine": engine,
        "geometry": geometry_name(),
        "features": geometry_features(),
        "message": "memory fault or stack overflow (runaway recursion) while executing this case",
        "case": serde_json::to_value(case).unwrap(),
    })
    .to_string()
}

/// Install the fault handler for a generated-case driver. A fault is a violation for the
/// properties that say "no call aborts / every call returns" (C09, C03, C21) and for C18.
pub fn install_fault_handler(ctx: &Ctx) {
    let _ = std::fs::create_dir_all(&ctx.replay_dir);
    let path = ctx.replay_dir.join(format!("{}-fault-{}.json", ctx.prop, geometry_features()));
    let violation = matches!(ctx.prop.as_str(), "C09" | "C03" | "C21" | "C18");
    crash::install_as(&ctx.prop, &path, violation);
}

pub fn geometry_features() -> &'static str {
    if cfg!(feature = "16K") {
        "16K"
    } else if cfg!(feature = "tree_huge_1") {
        "tree_huge_1"
    } else if cfg!(feature = "tree_huge_2") {
        "tree_huge_2"
    } else if cfg!(feature = "tree_huge_8") {
        "tree_huge_8"
    } else {
        "default"
    }
}

fn dispatch(prop: &str, ctx: &Ctx) -> Finish {
    if prop == "C19" {
        props_eval::run_c19(ctx)
    } else if prop == "C20" {
        props_eval::run_c20(ctx, replay_bin(), tmp_dir())
    } else if prop == "C18" {
        props_c18::run_c18(ctx)
    } else if prop == "C06" {
        props_unit2::run_c06(ctx)
    } else if prop == "C08" {
        props_unit2::run_c08(ctx)
    } else if prop == "C12" {
        props_unit2::run_c12(ctx)
    } else if prop == "C17" {
        props_unit2::run_c17(ctx)
    } else if prop == "C23" {
        props_unit::run_c23(ctx)
    } else if prop == "C16" {
        props_unit::run_c16(ctx)
    } else if let Some(spec) = props_seq::spec_for(prop) {
        props_seq::run_spec(&spec, ctx)
    } else if let Some(spec) = props_conc::spec_for(prop) {
        props_conc::run_spec(&spec, ctx)
    } else {
        Finish::Inconclusive(format!("unknown property {prop}"))
    }
}

/// Re-execute a saved case without any generator in the loop.
fn replay_doc(prop: &str, doc: &Value) -> Option<String> {
    if prop == "C18" {
        // the fault handler reports (and exits) if the case faults again
        return props_c18::replay(doc, &tmp_dir());
    }
    match doc["engine"].as_str().unwrap() {
        "seq" => {
            let case: e1::SeqCase = serde_json::from_value(doc["case"].clone()).unwrap();
            props_seq::replay(prop, &case)
        }
        "conc" => {
            let case: e2::ConcCase = serde_json::from_value(doc["case"].clone()).unwrap();
            props_conc::replay(prop, &case)
        }
        "classcfg" => props_eval::replay_class(&serde_json::from_value(doc["case"].clone()).unwrap()),
        "trace" => props_eval::replay_trace(&serde_json::from_value(doc["case"].clone()).unwrap(), replay_bin(), tmp_dir()),
        "init" => props_unit2::replay_init(&serde_json::from_value(doc["case"].clone()).unwrap()),
        "invalid" => props_unit2::replay_invalid(&serde_json::from_value(doc["case"].clone()).unwrap()),
        "classids" => props_unit2::replay_class_ids(&serde_json::from_value(doc["case"].clone()).unwrap()),
        "tree" => props_unit2::replay_tree(&serde_json::from_value(doc["case"].clone()).unwrap()),
        "wrap" => props_unit2::replay_wrap(&serde_json::from_value(doc["case"].clone()).unwrap()),
        "row" => props_unit::replay_row(&serde_json::from_value(doc["case"].clone()).unwrap()),
        "sortedbuf" => props_unit::replay_buf(&serde_json::from_value(doc["case"].clone()).unwrap()),
        "search" => props_unit::replay_search(&serde_json::from_value(doc["case"].clone()).unwrap()),
        e => panic!("unknown engine {e}"),
    }
}

/// Permanent regression cases (minimal reproductions of fixed findings).
fn run_regress(ctx: &Ctx, dir: Option<&str>) -> Option<Finish> {
    let dir = dir?;
    let mut files: Vec<_> = std::fs::read_dir(dir)
        .ok()?
        .filter_map(|e| e.ok())
        .map(|e| e.path())
        .filter(|p| {
            p.file_name()
                .and_then(|n| n.to_str())
                .is_some_and(|n| n.starts_with(&format!("{}-", ctx.prop)) && n.ends_with(".json"))
        })
        .collect();
    files.sort();
    for f in files {
        let doc: Value = serde_json::from_str(&std::fs::read_to_string(&f).ok()?).ok()?;
        if doc["features"].as_str() != Some(geometry_features()) {
            continue;
        }
        QUIET.store(true, std::sync::atomic::Ordering::Relaxed);
        let r = replay_doc(&ctx.prop, &doc);
        QUIET.store(false, std::sync::atomic::Ordering::Relaxed);
        if let Some(m) = r {
            println!("violation (regression case): {m}");
            println!("VIOLATION property={} replay={}", ctx.prop, f.display());
            return Some(Finish::Violation);
        }
        println!("regression case {} ok", f.display());
    }
    None
}

pub static QUIET: std::sync::atomic::AtomicBool = std::sync::atomic::AtomicBool::new(false);

fn replay_bin() -> Option<String> {
    let args: Vec<String> = std::env::args().collect();
    arg_value(&args, "--replay-bin")
}
fn tmp_dir() -> PathBuf {
    let args: Vec<String> = std::env::args().collect();
    arg_value(&args, "--tmp-dir").map(PathBuf::from).unwrap_or_else(|| "target/tmp".into())
}

fn arg_value(args: &[String], name: &str) -> Option<String> {
    args.iter()
        .position(|a| a == name)
        .and_then(|i| args.get(i + 1).cloned())
}

pub fn main_entry() {
    let args: Vec<String> = std::env::args().collect();
    unsafe {
        // keep freed memory in the arenas: many short-lived vectors per case
        libc::mallopt(libc::M_MMAP_THRESHOLD, 32 << 20);
        libc::mallopt(libc::M_TRIM_THRESHOLD, 1 << 30);
    }
    panics::install_hook();
    known::load(arg_value(&args, "--known").as_deref());
    let code = match args.get(1).map(String::as_str) {
        Some("check") => {
            let prop = args.get(2).expect("property id").clone();
            let ctx = Ctx {
                // "C04c" = concurrent phase of property C04
                prop: prop.trim_end_matches('c').to_string(),
                tier: arg_value(&args, "--tier").unwrap_or("quick".into()),
                seed: arg_value(&args, "--seed")
                    .and_then(|s| s.parse().ok())
                    .unwrap_or(0),
                out: arg_value(&args, "--out").map(PathBuf::from),
                replay_dir: arg_value(&args, "--replay-dir")
                    .map(PathBuf::from)
                    .unwrap_or("replays".into()),
                scale_pct: arg_value(&args, "--scale")
                    .and_then(|s| s.parse().ok())
                    .unwrap_or(100),
            };
            let fin = match run_regress(&ctx, arg_value(&args, "--regress-dir").as_deref()) {
                Some(f) => f,
                None => dispatch(&prop, &ctx),
            };
            match fin {
                Finish::Pass => 0,
                Finish::Violation => 1,
                Finish::Inconclusive(m) => {
                    println!("INCONCLUSIVE: {m}");
                    2
                }
            }
        }
        Some("export-miri") => {
            // vfh export-miri <count> <seed> <file>: resolved call scripts of small generated cases
            use proptest::strategy::{Strategy, ValueTree};
            use proptest::test_runner::{Config as PtConfig, RngSeed, TestRunner};
            let count: usize = args.get(2).and_then(|s| s.parse().ok()).unwrap_or(40);
            let seed: u64 = args.get(3).and_then(|s| s.parse().ok()).unwrap_or(0);
            let file = args.get(4).expect("output file");
            let w = ops::Weights {
                change: 4,
                drain: 6,
                exhaust: 0,
                free_subset: 1,
                beyond: true,
                offline_full_only: false,
                ..ops::Weights::base(3)
            };
            let strat = (
                gen_cfg::config_strategy(1, true, true, false),
                proptest::collection::vec(ops::op_strategy(&w), 0..12),
            )
                .prop_map(|(cfg, ops)| e1::SeqCase { cfg, ops });
            let mut runner = TestRunner::new(PtConfig {
                rng_seed: RngSeed::Fixed(seed),
                failure_persistence: None,
                ..PtConfig::default()
            });
            let mut out = String::new();
            let mut n = 0;
            let mut tries = 0;
            while n < count && tries < count * 20 {
                tries += 1;
                let case = strat.new_tree(&mut runner).unwrap().current();
                if let Some(lines) = e1::script_of(&case) {
                    out += &lines.join("\n");
                    out += "\n\n";
                    n += 1;
                }
            }
            std::fs::write(file, out).unwrap();
            println!("exported {n} call scripts to {file}");
            0
        }
        Some("replay") => {
            let path = args.get(2).expect("replay file");
            let doc: Value =
                serde_json::from_str(&std::fs::read_to_string(path).expect("read replay file"))
                    .expect("parse replay file");
            let prop = doc["property"].as_str().unwrap().to_string();
            if matches!(prop.as_str(), "C09" | "C03" | "C21") {
                // a fault (e.g. stack overflow by runaway recursion) while replaying is the violation
                let _ = std::fs::create_dir_all(tmp_dir());
                crash::install_as(&prop, &tmp_dir().join("replay-fault.json"), true);
                let text = std::fs::read_to_string(path).unwrap_or_default();
                crash::set_current(Box::leak(text.into_boxed_str()));
            }
            if doc["features"].as_str() != Some(geometry_features()) {
                println!(
                    "WRONG-GEOMETRY: replay needs features {}",
                    doc["features"].as_str().unwrap_or("?")
                );
                std::process::exit(4);
            }
            let res = replay_doc(&prop, &doc);
            match res {
                Some(m) => {
                    println!("violation: {m}");
                    println!("VIOLATION property={prop} replay={path}");
                    1
                }
                None => {
                    println!("replay: property {prop} held on this case");
                    0
                }
            }
        }
        _ => {
            eprintln!("usage: vfh check <PROP> [--tier T] [--seed N] [--out F] | vfh replay <file>");
            2
        }
    };
    std::process::exit(code);
}
