//! Byte-level front end for the coverage-guided fuzz targets (/verif/fuzz): decode fuzzer
//! bytes into the same structured cases the proptest drivers use, run the same interpreters
//! with the same oracles, and turn a violation into a replay file + panic.

use arbitrary::{Result, Unstructured};
use llfree::{HUGE_FRAMES, TREE_FRAMES, TREE_ORDER};

use crate::cfg::{ClassKind, Config, InitKind};
use crate::e1::{Oracles, SeqCase, run_seq};
use crate::e2::{ConcCase, ConcOpts, Sched, run_conc};
use crate::ops::*;

fn slot(u: &mut Unstructured) -> Result<SlotSel> {
    Ok(if u.ratio(1, 5)? {
        SlotSel::None
    } else {
        SlotSel::Slot(u.arbitrary()?)
    })
}
fn order(u: &mut Unstructured) -> Result<u8> {
    let h = llfree::HUGE_ORDER as u8;
    Ok(match u.int_in_range(0..=9u8)? {
        0..=3 => 0,
        4..=5 => u.int_in_range(0..=6)?,
        6 => u.int_in_range(7..=h - 1)?,
        7 => h,
        8 => u.int_in_range(h..=TREE_ORDER as u8)?,
        _ => TREE_ORDER as u8,
    })
}
fn target(u: &mut Unstructured) -> Result<Target> {
    Ok(match u.int_in_range(0..=5u8)? {
        0 | 1 => Target::None,
        2 | 3 => Target::Free(u.arbitrary()?),
        4 => Target::Held(u.arbitrary()?),
        _ => Target::Any(u.arbitrary()?),
    })
}

/// `conc`: only well-behaved operations (E2 threads).
fn op(u: &mut Unstructured, conc: bool) -> Result<Op> {
    let class = u.int_in_range(0..=2u8)?;
    Ok(match u.int_in_range(0..=(if conc { 11u8 } else { 15 }))? {
        0..=3 => Op::Get { order: order(u)?, class, slot: slot(u)?, target: target(u)? },
        4..=6 => Op::Put { what: PutWhat::Held(u.arbitrary()?), class, slot: slot(u)? },
        7 | 8 => Op::Put {
            what: PutWhat::Part { held: u.arbitrary()?, down: u.int_in_range(1..=10)?, part: u.arbitrary()? },
            class,
            slot: slot(u)?,
        },
        9 => Op::Drain,
        10 => Op::Change {
            sel: if u.arbitrary()? { TreeSel::Id(u.arbitrary()?) } else { TreeSel::Match },
            class: if u.arbitrary()? { Some(u.int_in_range(0..=2)?) } else { None },
            min_free: MinFree::Tree,
            set_class: if u.arbitrary()? { Some(u.int_in_range(0..=2)?) } else { None },
            op: *u.choose(&[TreeOp::None, TreeOp::Online, TreeOp::Offline])?,
        },
        11 => Op::FreeSubset { mask: u.arbitrary()?, class, slot: slot(u)? },
        12 => Op::Put { what: PutWhat::Arbitrary { order: order(u)?, pos: u.arbitrary()? }, class, slot: slot(u)? },
        13 => Op::Put { what: PutWhat::Cover { held: u.arbitrary()?, up: u.int_in_range(1..=3)? }, class, slot: slot(u)? },
        14 => Op::DrainCheck { class, slot: slot(u)?, order: order(u)?, target: target(u)? },
        _ => Op::Validate,
    })
}

fn config(u: &mut Unstructured, max_trees: usize) -> Result<Config> {
    let frames = match u.int_in_range(0..=3u8)? {
        0 => u.int_in_range(1..=max_trees)? * TREE_FRAMES,
        1 => u.int_in_range(1..=max_trees * TREE_FRAMES / HUGE_FRAMES)? * HUGE_FRAMES,
        2 => (u.int_in_range(1..=max_trees * TREE_FRAMES / HUGE_FRAMES)? * HUGE_FRAMES + u.int_in_range(0..=140)?)
            .saturating_sub(70)
            .clamp(1, max_trees * TREE_FRAMES),
        _ => u.int_in_range(1..=max_trees * TREE_FRAMES)?,
    };
    let s = |u: &mut Unstructured| -> Result<usize> { u.int_in_range(1..=2usize) };
    let classes = match u.int_in_range(0..=3u8)? {
        0 => ClassKind::Simple([s(u)?, s(u)?]),
        1 => ClassKind::Movable([s(u)?, s(u)?, s(u)?]),
        2 => ClassKind::Zeroed([s(u)?, s(u)?, s(u)?]),
        _ => ClassKind::Single(s(u)?),
    };
    Ok(Config {
        frames,
        init: if u.ratio(1, 5)? { InitKind::AllocAll } else { InitKind::FreeAll },
        classes,
    })
}

pub fn seq_case(data: &[u8]) -> Result<SeqCase> {
    let mut u = Unstructured::new(data);
    let cfg = config(&mut u, 3)?;
    let n = u.int_in_range(0..=48usize)?;
    let mut ops = Vec::with_capacity(n);
    for _ in 0..n {
        if u.is_empty() {
            break;
        }
        ops.push(op(&mut u, false)?);
    }
    Ok(SeqCase { cfg, ops })
}

pub fn conc_case(data: &[u8]) -> Result<ConcCase> {
    let mut u = Unstructured::new(data);
    let cfg = config(&mut u, 2)?;
    let nthreads = u.int_in_range(2..=3usize)?;
    let mut setup = vec![];
    for _ in 0..u.int_in_range(0..=5usize)? {
        setup.push(op(&mut u, true)?);
    }
    let mut threads = vec![];
    for _ in 0..nthreads {
        let mut t = vec![];
        for _ in 0..u.int_in_range(1..=3usize)? {
            t.push(op(&mut u, true)?);
        }
        threads.push(t);
    }
    let lower_only = u.ratio(1, 4)?;
    let split_deal = u.arbitrary()?;
    // the rest of the input is the schedule: (step delta, target) pairs
    let mut points = vec![];
    let mut step = 0u32;
    while !u.is_empty() && points.len() < 12 {
        step += u.int_in_range(0..=24u32)?;
        points.push((step, u.int_in_range(0..=1u8)?));
    }
    let base: Vec<u8> = (0..nthreads as u8).collect();
    Ok(ConcCase { cfg, setup, threads, sched: Sched::Preempt { base, points }, lower_only, freeze: None, split_deal })
}

fn report(prop: &str, engine: &str, case: serde_json::Value, msg: &str) -> ! {
    let dir = std::env::var("VF_REPLAY_DIR").unwrap_or_else(|_| "/verif/replays".into());
    let _ = std::fs::create_dir_all(&dir);
    let h = crate::runner::hash_of(&case.to_string());
    let path = format!("{dir}/{prop}-fuzz-{h:016x}.json");
    let doc = serde_json::json!({
        "property": prop, "engine": engine, "geometry": crate::geometry_name(),
        "features": crate::geometry_features(), "message": msg, "case": case,
    });
    let _ = std::fs::write(&path, serde_json::to_string_pretty(&doc).unwrap());
    println!("violation: {msg}");
    println!("VIOLATION property={prop} replay={path}");
    std::process::abort();
}

/// A campaign started by `vf check <ID>` only reports violations of that property.
fn wanted(prop: &str) -> bool {
    std::env::var("VF_FUZZ_PROP").map(|w| w == prop).unwrap_or(true)
}

fn tag_property(tag: &str) -> Option<&'static str> {
    Some(match tag {
        "C02" => "C02",
        "C04" => "C04",
        "C06" => "C06",
        "C10" => "C10",
        "C13" => "C13",
        "C14" => "C14",
        "C15" => "C15",
        "PANIC" => "C09",
        _ => return None,
    })
}

/// Target `seq`: every sequential oracle at once.
pub fn fuzz_seq(data: &[u8]) {
    let Ok(case) = seq_case(data) else { return };
    let or = Oracles {
        accounting: true,
        class: true,
        class_stats: true,
        offline: true,
        ..Default::default()
    };
    let out = run_seq(&case, &or, false);
    if let Some(v) = out.violation
        && let Some(p) = tag_property(&v.tag)
        && wanted(p)
    {
        report(p, "seq", serde_json::to_value(&case).unwrap(), &format!("[{}] step {}: {}", v.tag, v.step, v.msg));
    }
}

/// Target `sched`: concurrent executions; the listed known finding of C03 is tolerated.
pub fn fuzz_sched(data: &[u8]) {
    let Ok(case) = conc_case(data) else { return };
    let opts = ConcOpts { check_end: true, class: true, ..Default::default() };
    let out = run_conc(&case, &opts);
    if let Some(v) = out.violation {
        let full = format!("[{}] step {}: {}", v.tag, v.step, v.msg);
        let want = std::env::var("VF_FUZZ_PROP").ok();
        let prop = match (v.tag.as_str(), want.as_deref()) {
            // an overlapping/misplaced block also violates C03's third clause
            ("C01", Some("C03")) => "C03",
            ("C01", _) => "C01",
            ("C03" | "PANIC", _) => "C03",
            ("C04", _) => "C04",
            ("C13", _) => "C13",
            _ => return,
        };
        if !wanted(prop) {
            return;
        }
        if prop == "C03" && full.contains("Exceeding retries") {
            return; // known finding (known_findings.json), rediscovered forever otherwise
        }
        report(prop, "conc", serde_json::to_value(&case).unwrap(), &full);
    }
}

/// Target `rows`: the row bit search against the naive reference.
pub fn fuzz_rows(data: &[u8]) {
    if data.len() < 9 {
        return;
    }
    let row = u64::from_le_bytes(data[..8].try_into().unwrap());
    for order in 0..=6usize {
        let c = crate::props_unit::RowCase { row: row.rotate_left(data[8] as u32 % 64), order };
        if let Some(m) = crate::props_unit::replay_row_quiet(&c) {
            report("C23", "row", serde_json::to_value(&c).unwrap(), &m);
        }
    }
}
