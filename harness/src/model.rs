//! Reference model: a per-frame ownership map with a "whole huge frame" marker.
//!
//! Deliberately independent of the allocator's data structures.

use std::collections::BTreeSet;

use llfree::{HUGE_FRAMES, HUGE_ORDER, TREE_FRAMES, TREE_ORDER};
use serde::{Deserialize, Serialize};

use crate::cfg::{Config, InitKind};

#[derive(Serialize, Deserialize, Clone, Copy, Debug, PartialEq, Eq, Hash, PartialOrd, Ord)]
pub struct Block {
    pub frame: usize,
    pub order: usize,
}
impl Block {
    pub fn new(frame: usize, order: usize) -> Self {
        Self { frame, order }
    }
    pub fn len(&self) -> usize {
        1 << self.order
    }
    pub fn end(&self) -> usize {
        self.frame + self.len()
    }
    pub fn range(&self) -> core::ops::Range<usize> {
        self.frame..self.end()
    }
    pub fn overlaps(&self, o: &Block) -> bool {
        self.frame < o.end() && o.frame < self.end()
    }
    pub fn tree(&self) -> usize {
        self.frame / TREE_FRAMES
    }
}

/// Decompose `[start, end)` into maximal aligned blocks of order <= `max_order`.
pub fn decompose(mut start: usize, end: usize, max_order: usize) -> Vec<Block> {
    let mut out = Vec::new();
    while start < end {
        let mut o = if start == 0 {
            max_order
        } else {
            (start.trailing_zeros() as usize).min(max_order)
        };
        while start + (1 << o) > end {
            o -= 1;
        }
        out.push(Block::new(start, o));
        start += 1 << o;
    }
    out
}

/// Held blocks: insertion-ordered vector with an index for O(1) removal.
#[derive(Clone, Debug, Default)]
pub struct HeldSet {
    v: Vec<Block>,
    idx: std::collections::HashMap<Block, usize>,
}
impl HeldSet {
    pub fn len(&self) -> usize {
        self.v.len()
    }
    pub fn is_empty(&self) -> bool {
        self.v.is_empty()
    }
    pub fn contains(&self, b: &Block) -> bool {
        self.idx.contains_key(b)
    }
    pub fn push(&mut self, b: Block) {
        if self.idx.insert(b, self.v.len()).is_none() {
            self.v.push(b);
        }
    }
    pub fn remove(&mut self, b: &Block) -> bool {
        let Some(i) = self.idx.remove(b) else {
            return false;
        };
        self.v.swap_remove(i);
        if i < self.v.len() {
            self.idx.insert(self.v[i], i);
        }
        true
    }
    pub fn to_vec(&self) -> Vec<Block> {
        self.v.clone()
    }
    pub fn iter(&self) -> impl Iterator<Item = &Block> {
        self.v.iter()
    }
}
impl core::ops::Index<usize> for HeldSet {
    type Output = Block;
    fn index(&self, i: usize) -> &Block {
        &self.v[i]
    }
}

#[derive(Clone, Debug)]
pub struct Model {
    pub frames: usize,
    /// true = allocated
    pub alloc: Vec<bool>,
    /// per huge frame: allocated as a whole (huge marker)
    pub whole: Vec<bool>,
    /// trees that were taken offline while entirely free
    pub offline: BTreeSet<usize>,
    /// blocks currently held by the caller(s)
    pub held: HeldSet,
}

impl Model {
    pub fn new(cfg: &Config) -> Self {
        let frames = cfg.frames;
        let huge = frames.div_ceil(HUGE_FRAMES);
        let mut m = Self {
            frames,
            alloc: vec![false; frames],
            whole: vec![false; huge],
            offline: BTreeSet::new(),
            held: HeldSet::default(),
        };
        if cfg.init == InitKind::AllocAll {
            m.alloc.fill(true);
            for h in 0..huge {
                m.whole[h] = (h + 1) * HUGE_FRAMES <= frames;
            }
        }
        m
    }

    pub fn free_frames(&self) -> usize {
        self.alloc.iter().filter(|a| !**a).count()
    }
    pub fn huge_free(&self, h: usize) -> usize {
        let s = h * HUGE_FRAMES;
        let e = ((h + 1) * HUGE_FRAMES).min(self.frames);
        self.alloc[s..e].iter().filter(|a| !**a).count()
    }
    pub fn huge_entirely_free(&self, h: usize) -> bool {
        (h + 1) * HUGE_FRAMES <= self.frames && self.huge_free(h) == HUGE_FRAMES
    }
    pub fn free_huge(&self) -> usize {
        (0..self.whole.len())
            .filter(|&h| self.huge_entirely_free(h))
            .count()
    }
    pub fn tree_free(&self, t: usize) -> usize {
        let s = t * TREE_FRAMES;
        let e = ((t + 1) * TREE_FRAMES).min(self.frames);
        self.alloc[s..e].iter().filter(|a| !**a).count()
    }
    pub fn free_trees(&self) -> usize {
        (0..self.frames.div_ceil(TREE_FRAMES))
            .filter(|&t| self.tree_free(t) == TREE_FRAMES)
            .count()
    }
    pub fn trees(&self) -> usize {
        self.frames.div_ceil(TREE_FRAMES)
    }

    /// Is the block entirely free in the sense needed by an allocation of its order?
    pub fn block_free(&self, b: Block) -> bool {
        if b.end() > self.frames || b.frame % b.len() != 0 {
            return false;
        }
        self.alloc[b.range()].iter().all(|a| !*a)
    }
    pub fn block_allocated(&self, b: Block) -> bool {
        b.end() <= self.frames && self.alloc[b.range()].iter().all(|a| *a)
    }

    /// Would a free of `b` (valid arguments) succeed?
    pub fn can_put(&self, b: Block) -> bool {
        debug_assert!(b.end() <= self.frames && b.frame % b.len() == 0);
        if b.order >= HUGE_ORDER {
            (b.frame / HUGE_FRAMES..b.end() / HUGE_FRAMES).all(|h| self.whole[h])
        } else {
            self.block_allocated(b)
        }
    }

    /// Apply a successful free.
    pub fn apply_put(&mut self, b: Block) {
        for f in b.range() {
            self.alloc[f] = false;
        }
        if b.order >= HUGE_ORDER {
            for h in b.frame / HUGE_FRAMES..b.end() / HUGE_FRAMES {
                self.whole[h] = false;
            }
        } else {
            // freeing part of a whole huge frame splits it
            self.whole[b.frame / HUGE_FRAMES] = false;
        }
        // update held blocks
        if self.held.remove(&b) {
            // held blocks are pairwise disjoint, nothing else can overlap
            return;
        }
        let overlapping: Vec<Block> = self.held.iter().filter(|h| h.overlaps(&b)).copied().collect();
        let mut new_held = Vec::new();
        for h in overlapping {
            self.held.remove(&h);
            // remainder of h outside b
            let max_o = h.order.min(TREE_ORDER);
            if h.frame < b.frame {
                new_held.extend(decompose(h.frame, b.frame.min(h.end()), max_o));
            }
            if b.end() < h.end() {
                new_held.extend(decompose(b.end().max(h.frame), h.end(), max_o));
            }
        }
        // pieces that remain inside a formerly-whole huge frame must be below HUGE_ORDER
        for h in new_held {
            if h.order >= HUGE_ORDER
                && !(h.frame / HUGE_FRAMES..h.end() / HUGE_FRAMES).all(|x| self.whole[x])
            {
                for p in decompose(h.frame, h.end(), HUGE_ORDER - 1) {
                    self.held.push(p);
                }
            } else {
                self.held.push(h);
            }
        }
    }

    /// Apply a successful allocation.
    pub fn apply_get(&mut self, b: Block) {
        for f in b.range() {
            self.alloc[f] = true;
        }
        if b.order >= HUGE_ORDER {
            for h in b.frame / HUGE_FRAMES..b.end() / HUGE_FRAMES {
                self.whole[h] = true;
            }
        }
        self.held.push(b);
    }

    /// Lowest aligned entirely-free block of `order` at or after the aligned position `from`
    /// (wrapping), if any.
    pub fn find_free(&self, order: usize, from: usize) -> Option<Block> {
        let len = 1usize << order;
        let n = self.frames / len;
        if n == 0 {
            return None;
        }
        let start = (from / len) % n;
        for i in 0..n {
            let b = Block::new(((start + i) % n) * len, order);
            if self.block_free(b) {
                return Some(b);
            }
        }
        None
    }

    /// All free frames outside offline trees
    pub fn free_outside_offline(&self) -> usize {
        (0..self.trees())
            .filter(|t| !self.offline.contains(t))
            .map(|t| self.tree_free(t))
            .sum()
    }
}
