//! Miri replayer for C18: re-executes resolved call scripts exported by the harness
//! (`vfh export-miri`) and a few two-thread scenarios. Miri reports any undefined
//! behaviour; the replayer additionally checks that results equal the recorded ones.
//!
//! Script format (cases separated by blank lines):
//!   CFG <frames> <free|alloc> <simple|movable|zeroed|single> <slots...>
//!   G <target|-> <order> <class> <slot|-> = <frame> <class> | E<code>
//!   P <frame> <order> <class> <slot|-> = OK | E<code>
//!   D
//!   C <id|-> <class|-> <min_free> <set_class|-> <N|O|F> = OK | E<code>

use llfree::{
    Alloc, Class, Classing, Error, FrameId, Init, LLFree, MetaData, Policy, Request, TREE_FRAMES,
    TreeChange, TreeId, TreeMatch, TreeOperation,
};

fn simple_policy(requested: Class, target: Class, free: usize) -> Policy {
    (Classing::simple(1).0.policy)(requested, target, free)
}
fn movable_policy(requested: Class, target: Class, free: usize) -> Policy {
    (Classing::movable(1).0.policy)(requested, target, free)
}

fn classing(kind: &str, slots: &[usize]) -> Classing {
    let classes: Vec<(Class, usize)> = slots
        .iter()
        .enumerate()
        .map(|(i, n)| (Class(i as u8), *n))
        .collect();
    // same list order as the harness that recorded the script (cfg.rs: ClassKind::classing)
    let mut classes = classes;
    let rot = slots.iter().sum::<usize>() % classes.len();
    classes.rotate_left(rot);
    match kind {
        "simple" => Classing::new(&classes, Class(1), simple_policy),
        "movable" => Classing::new(&classes, Class(2), movable_policy),
        "zeroed" => Classing::new(&classes, Class(1), simple_policy),
        _ => Classing::new(&classes, Class(0), simple_policy),
    }
}

fn opt(s: &str) -> Option<usize> {
    if s == "-" { None } else { Some(s.parse().unwrap()) }
}
fn code<T>(r: &llfree::Result<T>, ok: impl Fn(&T) -> String) -> String {
    match r {
        Ok(v) => ok(v),
        Err(Error::Memory) => "E1".into(),
        Err(Error::Argument) => "E3".into(),
        Err(Error::Initialization) => "E4".into(),
    }
}

fn run_script(text: &str) -> usize {
    let mut lines = text.lines();
    let cfg: Vec<&str> = lines.next().unwrap().split_whitespace().collect();
    assert_eq!(cfg[0], "CFG");
    let frames: usize = cfg[1].parse().unwrap();
    let init = if cfg[2] == "alloc" { Init::AllocAll } else { Init::FreeAll };
    let slots: Vec<usize> = cfg[4..].iter().map(|s| s.parse().unwrap()).collect();
    let classing = classing(cfg[3], &slots);
    let ms = LLFree::metadata_size(&classing, frames);
    let meta = MetaData::alloc(&ms);
    let alloc = LLFree::new(frames, init, &classing, meta).unwrap();
    let mut calls = 0;
    for l in lines {
        let (call, want) = match l.split_once(" = ") {
            Some((c, w)) => (c, w.trim()),
            None => (l, ""),
        };
        let t: Vec<&str> = call.split_whitespace().collect();
        calls += 1;
        match t[0] {
            "G" => {
                let r = alloc.get(
                    opt(t[1]).map(FrameId),
                    Request::new(t[2].parse().unwrap(), Class(t[3].parse().unwrap()), opt(t[4])),
                );
                assert_eq!(code(&r, |(f, c)| format!("{} {}", f.0, c.0)), want, "{l}");
            }
            "P" => {
                let r = alloc.put(
                    FrameId(t[1].parse().unwrap()),
                    Request::new(t[2].parse().unwrap(), Class(t[3].parse().unwrap()), opt(t[4])),
                );
                assert_eq!(code(&r, |_| "OK".into()), want, "{l}");
            }
            "D" => alloc.drain(),
            "C" => {
                let r = alloc.change_tree(
                    TreeMatch {
                        id: opt(t[1]).map(TreeId),
                        class: opt(t[2]).map(|c| Class(c as u8)),
                        free: t[3].parse().unwrap(),
                    },
                    TreeChange {
                        class: opt(t[4]).map(|c| Class(c as u8)),
                        operation: match t[5] {
                            "O" => Some(TreeOperation::Online),
                            "F" => Some(TreeOperation::Offline),
                            _ => None,
                        },
                    },
                );
                assert_eq!(code(&r, |_| "OK".into()), want, "{l}");
            }
            x => panic!("unknown script line {x}"),
        }
    }
    // queries
    let _ = alloc.stats();
    let _ = alloc.tree_stats();
    for f in (0..frames).step_by(97) {
        let _ = alloc.stats_at(FrameId(f), 0);
    }
    calls
}

/// Two threads on one small allocator (std threads; run with -Zmiri-many-seeds for schedules).
fn two_threads(order_a: usize, order_b: usize) {
    let (classing, _) = Classing::simple(1);
    let frames = TREE_FRAMES;
    let ms = LLFree::metadata_size(&classing, frames);
    let alloc = LLFree::new(frames, Init::FreeAll, &classing, MetaData::alloc(&ms)).unwrap();
    let a = &alloc;
    std::thread::scope(|s| {
        for (i, order) in [order_a, order_b].into_iter().enumerate() {
            s.spawn(move || {
                let rq = Request::new(order, Class((order >= llfree::HUGE_ORDER) as u8), if i == 0 { Some(0) } else { None });
                let mut held = vec![];
                for _ in 0..3 {
                    if let Ok((f, _)) = a.get(None, rq) {
                        held.push(f);
                    }
                }
                for f in held {
                    a.put(f, rq).unwrap();
                }
            });
        }
    });
    alloc.validate();
}

fn main() {
    let which = std::env::args().nth(1).unwrap_or("scripts".into());
    match which.as_str() {
        "scripts" => {
            // cases exported by the harness for this run (needs -Zmiri-disable-isolation),
            // else the committed sample set
            let text = match std::env::var("VF_MIRI_CASES") {
                Ok(p) => std::fs::read_to_string(p).expect("read cases"),
                Err(_) => include_str!("../cases.txt").to_string(),
            };
            let limit: usize = std::env::var("VF_MIRI_CASES").ok().and_then(|s| s.parse().ok()).unwrap_or(usize::MAX);
            let mut n = 0;
            let mut calls = 0;
            for case in text.split("\n\n").filter(|c| !c.trim().is_empty()).take(limit) {
                calls += run_script(case.trim());
                n += 1;
            }
            println!("MIRI-OK scripts={n} calls={calls}");
        }
        // orders 3..5 use narrower atomics on the bitfield rows (known finding): kept apart
        "threads" => {
            two_threads(0, 0);
            two_threads(0, 6);
            two_threads(7, 1);
            two_threads(0, 9);
            two_threads(8, 2);
            println!("MIRI-OK threads=5");
        }
        "threads-mixed" => {
            two_threads(0, 3);
            two_threads(4, 6);
            two_threads(5, 1);
            println!("MIRI-OK threads=3");
        }
        _ => panic!("usage: vfmiri scripts|threads"),
    }
}
