#!/usr/bin/env python3
"""Store a confirmed seeded change under /verif/seeded/<name>/ (patch.diff, demonstration, meta.json).

keep_mutant.py <name> <worktree> <property> <demo file in MUTANT/> <needs...> -- <detection lines...>
"""
import json
import os
import shutil
import sys

ROOT = os.path.dirname(os.path.dirname(os.path.abspath(__file__)))
a = sys.argv[1:]
name, wt, prop, demo = a[:4]
rest = a[4:]
sep = rest.index("--")
needs = " ".join(rest[:sep])
detect = rest[sep + 1:]
d = os.path.join(ROOT, "seeded", name)
os.makedirs(d, exist_ok=True)
shutil.copy(os.path.join(wt, "MUTANT", "patch.diff"), os.path.join(d, "patch.diff"))
shutil.copy(os.path.join(wt, "MUTANT", demo), os.path.join(d, demo))
for extra in ("demo.md", "notes.md"):
    p = os.path.join(wt, "MUTANT", extra)
    if os.path.exists(p):
        shutil.copy(p, os.path.join(d, extra))
confirm = ""
for log in ("/tmp/confirm_batch1.log", "/tmp/confirm_batch2.log", "/tmp/confirm_batch3.log", "/tmp/confirm_batch5.log", "/tmp/confirm_batch6.log", "/tmp/confirm_batch7.log", "/tmp/confirm_batch8.log", "/tmp/confirm_batch9.log", "/tmp/confirm_batch10.log", "/tmp/confirm_batch11.log", "/tmp/confirm_batch12.log", "/tmp/confirm_batch13.log", "/tmp/confirm_batch14.log", "/tmp/confirm_batch15.log", "/tmp/confirm_batch16.log", "/tmp/confirm_batch17.log", "/tmp/confirm_batch18.log"):
    if os.path.exists(log):
        for l in open(log):
            if l.startswith(f"CONFIRM {wt} "):
                confirm = l.strip()
meta = {
    "property": prop,
    "origin": "independent sub-agent given only the property record and a scratch worktree of /repo",
    "needs_to_manifest": needs,
    "demonstration": demo,
    "confirmed_by_me": {
        "how": "tools/confirm_mutant.sh in the scratch worktree: patch applies to a clean checkout and compiles; `cargo test --workspace --no-fail-fast --offline` passes with the patch; the demonstration fails with the patch and passes without it",
        "result": confirm,
    },
    "checks_run_against_it": detect,
    "how_to_rerun": f"./vf mutant seeded/{name}/patch.diff {prop}   (applies to /repo, runs the quick check, reverts)",
}
json.dump(meta, open(os.path.join(d, "meta.json"), "w"), indent=1)
print("kept", d)
