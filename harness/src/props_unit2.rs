//! Engine E3, part 2: C06 (initialization), C08 (invalid arguments), C12 (search within a tree),
//! C17 (zone / persistent wrappers).

use std::collections::HashSet;

use llfree::frame::Frame;
use llfree::wrapper::{NvmAlloc, ZoneAlloc};
use llfree::{
    Alloc, Class, Error, FrameId, HUGE_FRAMES, HUGE_ORDER, Init, LLFree, MetaData, Request,
    TREE_FRAMES, TREE_HUGE, TREE_ORDER, TreeId,
};
use proptest::prelude::*;
use serde::{Deserialize, Serialize};

use crate::buf::Bufs;
use crate::cfg::{ClassKind, Config, InitKind, Inst};
use crate::e1::run_setup;
use crate::gen_cfg::*;
use crate::known;
use crate::ops::*;
use crate::panics::guarded;
use crate::runner::*;
use crate::{Ctx, Finish};

fn verdict(prop: &str, r: Result<(bool, Vec<&'static str>), String>) -> Verdict {
    match r {
        Ok((nontrivial, classes)) => Verdict::Pass {
            nontrivial,
            classes,
        },
        Err(m) if m.starts_with("[SETUP") => Verdict::Abort(m.chars().take(40).collect()),
        Err(m) => match known::matches(prop, &m) {
            Some(k) => Verdict::Known(k.id.clone()),
            None => Verdict::Fail(m),
        },
    }
}

fn g<R>(what: &str, f: impl FnOnce() -> R) -> Result<R, String> {
    guarded(f).map_err(|p| format!("[PANIC] {what} panicked: {} at {}:{}", p.msg, p.file, p.line))
}

// =======================================================================================
// C06

#[derive(Serialize, Deserialize, Clone, Debug, Hash, PartialEq, Eq)]
pub struct InitCase {
    pub frames: usize,
    pub alloc_all: bool,
    pub with_slot: bool,
    /// byte the `trees` and `lower` buffers are filled with before construction (0 = zeroed):
    /// FreeAll/AllocAll must overwrite whatever a previous user left there
    #[serde(default)]
    pub dirty: u8,
}

pub fn c06_check(c: &InitCase) -> Result<(bool, Vec<&'static str>), String> {
    let n = c.frames;
    let classes = ClassKind::Simple([1, 1]);
    let tag = format!(
        "[C06] frames={n} init={}{}",
        if c.alloc_all { "AllocAll" } else { "FreeAll" },
        if c.dirty != 0 { format!(" (trees/lower buffers pre-filled with {:#04x})", c.dirty) } else { String::new() }
    );
    let dirty = c.dirty;
    let build = |init| {
        let classing = classes.classing();
        let ms = LLFree::metadata_size(&classing, n);
        let mut bufs = Bufs::new(&ms);
        if dirty != 0 {
            // the local buffer stays zeroed: Locals::new documents no initialization of its own
            bufs.trees.fill(dirty);
            bufs.lower.fill(dirty);
        }
        g("new", || Inst::build_with(n, init, &classes, Some(bufs)))?
            .map_err(|e| format!("{tag}: construction failed with {e:?}"))
    };
    let slot = if c.with_slot { Some(0) } else { None };
    let req0 = Request::new(0, Class(0), slot);
    let padded = n.next_multiple_of(HUGE_FRAMES);
    let free_of = |a: &LLFree, f: usize| a.stats_at(FrameId(f), 0).free_frames;
    let free_all = build(Init::FreeAll)?;
    let fa = &free_all.alloc;
    let fa_stats = g("stats", || (fa.stats(), fa.tree_stats().free_frames))?;
    if !c.alloc_all {
        let (s, fast) = &fa_stats;
        if s.free_frames != n || s.free_huge != n / HUGE_FRAMES || s.free_trees != n / TREE_FRAMES || *fast != n {
            return Err(format!("{tag}: fresh allocator reports {s:?}, fast free {fast}; expected free_frames={n} free_huge={} free_trees={}", n / HUGE_FRAMES, n / TREE_FRAMES));
        }
        g("stats_at", || {
            for f in 0..padded {
                let free = free_of(fa, f);
                if f < n && free != 1 {
                    return Err(format!("{tag}: managed frame {f} not reported free"));
                }
                if f >= n && free != 0 {
                    return Err(format!("{tag}: frame {f} at or beyond the managed count is reported free"));
                }
            }
            Ok(())
        })??;
        // exactly the managed frames can be allocated
        let mut got = HashSet::new();
        for i in 0..=n {
            match g("get", || fa.get(None, req0))? {
                Ok((f, _)) => {
                    if f.0 >= n {
                        return Err(format!("{tag}: allocation returned frame {} >= managed count", f.0));
                    }
                    if !got.insert(f.0) {
                        return Err(format!("{tag}: frame {} handed out twice", f.0));
                    }
                }
                Err(Error::Memory) => {
                    if i != n {
                        return Err(format!("{tag}: base-order allocation (slot={slot:?}) failed after {i} of {n} frames"));
                    }
                    break;
                }
                Err(e) => {
                    if n == 0 {
                        break; // nothing manageable: any error is fine
                    }
                    return Err(format!("{tag}: allocation {i} failed with {e:?}"));
                }
            }
            if i == n {
                return Err(format!("{tag}: more than {n} frames could be allocated"));
            }
        }
        let s = g("stats", || fa.stats())?;
        if s.free_frames != 0 {
            return Err(format!("{tag}: {} frames free after allocating all", s.free_frames));
        }
    } else {
        let inst = build(Init::AllocAll)?;
        let a = &inst.alloc;
        let s = g("stats", || (a.stats(), a.tree_stats().free_frames))?;
        if s.0.free_frames != 0 || s.0.free_huge != 0 || s.0.free_trees != 0 || s.1 != 0 {
            return Err(format!("{tag}: fresh allocator reports {:?} fast {}", s.0, s.1));
        }
        g("stats_at", || {
            for f in 0..padded {
                if free_of(a, f) != 0 {
                    return Err(format!("{tag}: frame {f} reported free"));
                }
            }
            Ok(())
        })??;
        if n > 0
            && let Ok((f, _)) = g("get", || a.get(None, req0))?
        {
            return Err(format!("{tag}: allocation succeeded with frame {} although nothing is free", f.0));
        }
        // every whole huge frame once at huge order, every other managed frame once at base order
        let whole = n / HUGE_FRAMES;
        for h in 0..whole {
            let f = FrameId(h * HUGE_FRAMES);
            let rq = Request::new(HUGE_ORDER, Class(1), slot);
            let r1 = g("put", || a.put(f, rq))?;
            if r1.is_err() {
                return Err(format!("{tag}: whole huge frame {h} could not be freed at huge order: {r1:?}"));
            }
            let r2 = g("put", || a.put(f, rq))?;
            if r2.is_ok() {
                return Err(format!("{tag}: huge frame {h} could be freed twice"));
            }
        }
        for f in whole * HUGE_FRAMES..n {
            let r1 = g("put", || a.put(FrameId(f), req0))?;
            if r1.is_err() {
                return Err(format!("{tag}: tail frame {f} could not be freed at base order: {r1:?}"));
            }
            let r2 = g("put", || a.put(FrameId(f), req0))?;
            if r2.is_ok() {
                return Err(format!("{tag}: tail frame {f} could be freed twice"));
            }
        }
        // now everything must equal a free-all allocator
        let now = g("stats", || (a.stats(), a.tree_stats().free_frames))?;
        if format!("{:?}", now) != format!("{:?}", fa_stats) {
            return Err(format!("{tag}: after freeing everything the counts are {now:?}, a free-all allocator reports {fa_stats:?}"));
        }
        g("stats_at", || {
            for f in 0..padded {
                if free_of(a, f) != free_of(fa, f) {
                    return Err(format!("{tag}: after freeing everything frame {f} differs from a free-all allocator"));
                }
            }
            Ok(())
        })??;
        g("validate", || a.validate())?;
        // "all counts": also the counts per class and per tree, once no slot holds a tree
        g("drain", || {
            a.drain();
            fa.drain();
        })?;
        let view = |x: &LLFree| {
            let words: Vec<_> = (0..x.trees.len()).map(|i| x.trees.stats_at(TreeId(i))).collect();
            format!("{:?} trees={words:?}", x.tree_stats())
        };
        let (va, vf) = (g("tree_stats", || view(a))?, g("tree_stats", || view(fa))?);
        if va != vf {
            return Err(format!("{tag}: after freeing everything (and a drain) the per-class / per-tree counts are {va}, a free-all allocator reports {vf}"));
        }
    }
    let nt = n % HUGE_FRAMES != 0 || n % TREE_FRAMES != 0;
    let mut cl = vec![];
    if n % HUGE_FRAMES != 0 {
        cl.push("partial_last_huge_frame");
    }
    if n % TREE_FRAMES != 0 {
        cl.push("partial_last_tree");
    }
    Ok((nt, cl))
}

pub fn run_c06(ctx: &Ctx) -> Finish {
    let thorough = ctx.tier == "thorough";
    let mut ev = Evidence::new(
        "C06",
        &ctx.tier,
        ctx.seed,
        "exploration",
        "inputs = (managed frame count, init mode, with/without slot, pre-fill byte of the trees/lower buffers: zeroed, 0xFF, 0xA5 or generated - FreeAll/AllocAll must overwrite whatever was there; the local buffer stays zeroed). Enumerated: every count 1..200 and every count within +-70 of each multiple of HUGE_FRAMES up to 4 trees (thorough: every count 1..=4*TREE_FRAMES+70), both init modes; plus proptest-sampled counts. FreeAll oracle: counts = (n, n/HUGE, n/TREE), every managed frame reported free and no frame in [n, round_up(n,HUGE)), exhaustive base-order allocation yields exactly n distinct frames < n and then Memory. AllocAll oracle: nothing free, allocation fails, every whole huge frame frees exactly once at huge order, every tail frame exactly once at base order, afterwards all counts and the per-frame view equal a FreeAll twin (differential) and validate() passes. Non-trivial = count that is not a multiple of HUGE_FRAMES or leaves the last tree short; distinct by case hash.",
    );
    let max = 4 * TREE_FRAMES + 70;
    let mut counts: Vec<usize> = Vec::new();
    if thorough {
        counts.extend(1..=max);
    } else {
        counts.extend(1..=200);
        for m in 1..=(4 * TREE_FRAMES / HUGE_FRAMES) {
            let b = m * HUGE_FRAMES;
            counts.extend(b - 70..=b + 70);
        }
        counts.sort();
        counts.dedup();
    }
    let total = counts.len() as u64 * 2;
    let (stats, f) = run_indexed(
        total,
        |i| {
            Some(InitCase {
                frames: counts[(i / 2) as usize],
                alloc_all: i % 2 == 1,
                with_slot: (i / 2) % 2 == 0,
                dirty: [0u8, 0xff, 0, 0xa5][(i / 4 % 4) as usize],
            })
        },
        |c| verdict("C06", c06_check(c)),
    );
    ev.stats.merge(stats);
    if let Some(f) = f {
        return ctx.fail(ev, "init", &f.case, f.msg);
    }
    ev.stats.exhaustive.push(format!("{} frame counts x 2 init modes", counts.len()));
    let (stats, f) = run_proptest(
        ctx.seed,
        ctx.scale(if thorough { 20_000 } else { 1_500 }),
        || {
            (1..=max, any::<bool>(), any::<bool>(), prop_oneof![Just(0u8), any::<u8>()])
                .prop_map(|(frames, alloc_all, with_slot, dirty)| InitCase {
                    frames,
                    alloc_all,
                    with_slot,
                    dirty,
                })
                .boxed()
        },
        |c| verdict("C06", c06_check(c)),
    );
    ev.stats.merge(stats);
    if let Some(f) = f {
        return ctx.fail(ev, "init", &f.case, f.msg);
    }
    ctx.pass(ev)
}
pub fn replay_init(c: &InitCase) -> Option<String> {
    c06_check(c).err()
}

// =======================================================================================
// C08

#[derive(Serialize, Deserialize, Clone, Debug, Hash, PartialEq, Eq)]
pub enum BadCall {
    /// order above TREE_ORDER
    Order { up: u8, put: bool, pos: Frac },
    /// block would extend past the managed range
    Range { order: u8, put: bool, beyond: u8 },
    /// frame not aligned to the order
    Misaligned { order: u8, put: bool, pos: Frac, off: Frac },
    /// class not configured
    Class { class: u8, put: bool, order: u8, pos: Frac },
    /// zone wrapper: frame below the offset
    BelowOffset { trees: u8, put: bool, below: Frac, order: u8 },
}

#[derive(Serialize, Deserialize, Clone, Debug, Hash, PartialEq, Eq)]
pub enum BadMeta {
    /// one of the three buffers is `short` bytes too small
    Small { which: u8, short: u8 },
    /// one of the three buffers starts `shift` bytes off the required alignment
    Shifted { which: u8, shift: u8 },
    /// two buffers overlap by `by` 64-byte units
    Overlap { pair: u8, by: u8 },
}

#[derive(Serialize, Deserialize, Clone, Debug, Hash, PartialEq, Eq)]
pub struct InvalidCase {
    pub cfg: Config,
    pub setup: Vec<Op>,
    pub calls: Vec<BadCall>,
    pub meta: Vec<BadMeta>,
}

fn fingerprint(inst: &Inst) -> String {
    let a = &inst.alloc;
    let frames = a.frames();
    let mut s = String::with_capacity(frames + 256);
    for f in 0..frames {
        s.push(if a.stats_at(FrameId(f), 0).free_frames == 1 { '.' } else { '#' });
    }
    for i in 0..a.trees.len() {
        s += &format!("|{:?}", a.trees.stats_at(TreeId(i)));
    }
    s += &format!("|{:?}|{:?}|{:?}", a.stats(), a.tree_stats(), a);
    s
}

fn c08_check(c: &InvalidCase) -> Result<(bool, Vec<&'static str>), String> {
    let (inst, _model) = run_setup(&c.cfg, &c.setup).map_err(|v| format!("[SETUP-{}] {}", v.tag, v.msg))?;
    let a = &inst.alloc;
    let frames = c.cfg.frames;
    // a configured class id for the calls whose class is not the point, and the ids that are
    // not configured (class lists may have gaps)
    let ids = c.cfg.classes.ids();
    let ok_class = Class(ids[0]);
    let unconfigured: Vec<u8> = (0u8..8).filter(|i| !ids.contains(i)).collect();
    let mut kinds: Vec<&'static str> = vec![];
    for call in &c.calls {
        let before = g("fingerprint", || fingerprint(&inst))?;
        let (what, r): (String, Result<(), Error>) = match *call {
            BadCall::Order { up, put, pos } => {
                let order = TREE_ORDER + 1 + (up as usize % 3);
                let frame = pick(pos, frames);
                let rq = Request::new(order, ok_class, None);
                kinds.push("order_too_big");
                if put {
                    (format!("put(frame {frame}, order {order})"), g("put", || a.put(FrameId(frame), rq))?)
                } else {
                    let t = if pos % 2 == 0 { None } else { Some(FrameId(frame)) };
                    (format!("get({t:?}, order {order})"), g("get", || a.get(t, rq).map(|_| ()))?)
                }
            }
            BadCall::Range { order, put, beyond } => {
                let order = order as usize % (TREE_ORDER + 1);
                let len = 1usize << order;
                // the first aligned block that does not fit any more, or one further out
                let frame = (frames / len + beyond as usize % 3) * len;
                if frame + len <= frames {
                    continue;
                }
                let rq = Request::new(order, ok_class, None);
                kinds.push("out_of_range");
                if put {
                    (format!("put(frame {frame}, order {order}) with {frames} frames"), g("put", || a.put(FrameId(frame), rq))?)
                } else {
                    (format!("get(frame {frame}, order {order}) with {frames} frames"), g("get", || a.get(Some(FrameId(frame)), rq).map(|_| ()))?)
                }
            }
            BadCall::Misaligned { order, put, pos, off } => {
                let order = 1 + order as usize % TREE_ORDER;
                let len = 1usize << order;
                if frames < 2 * len {
                    continue;
                }
                let base = pick(pos, frames / len - 1) * len;
                let frame = base + 1 + pick(off, len - 1);
                let rq = Request::new(order, ok_class, None);
                kinds.push("misaligned");
                if put {
                    (format!("put(frame {frame}, order {order})"), g("put", || a.put(FrameId(frame), rq))?)
                } else {
                    (format!("get(frame {frame}, order {order})"), g("get", || a.get(Some(FrameId(frame)), rq).map(|_| ()))?)
                }
            }
            BadCall::Class { class, put, order, pos } => {
                let class = unconfigured[class as usize % unconfigured.len()];
                let order = order as usize % (TREE_ORDER + 1);
                let len = 1usize << order;
                if frames < len {
                    continue;
                }
                let frame = pick(pos, frames / len) * len;
                let rq = Request::new(order, Class(class), None);
                kinds.push("class_not_configured");
                if put {
                    (format!("put(frame {frame}, order {order}, class {class})"), g("put", || a.put(FrameId(frame), rq))?)
                } else {
                    let t = if pos % 2 == 0 { None } else { Some(FrameId(frame)) };
                    (format!("get({t:?}, order {order}, class {class})"), g("get", || a.get(t, rq).map(|_| ()))?)
                }
            }
            BadCall::BelowOffset { .. } => continue,
        };
        if r != Err(Error::Argument) {
            return Err(format!("[C08] {what} returned {r:?}, expected Err(Argument)"));
        }
        let after = g("fingerprint", || fingerprint(&inst))?;
        if before != after {
            return Err(format!("[C08] rejected call {what} changed the allocator state"));
        }
    }
    // zone wrapper
    for call in &c.calls {
        if let BadCall::BelowOffset { trees, put, below, order } = *call {
            let offset = (1 + trees as usize % 4) * TREE_FRAMES;
            let classing = c.cfg.classes.classing();
            let ms = LLFree::metadata_size(&classing, frames);
            let bufs = Bufs::new(&ms);
            let z = g("ZoneAlloc::create", || {
                ZoneAlloc::<LLFree>::create(offset, frames, Init::FreeAll, &classing, unsafe { bufs.meta() })
            })?
            .map_err(|e| format!("[C08] ZoneAlloc::create(offset={offset}) failed: {e:?}"))?;
            let order = order as usize % (TREE_ORDER + 1);
            let frame = pick(below, offset) >> order << order;
            let rq = Request::new(order, ok_class, None);
            let before = g("stats", || format!("{:?}{:?}", z.stats(), z.tree_stats()))?;
            let r = if put {
                g("zone put", || z.put(FrameId(frame), rq))?
            } else {
                g("zone get", || z.get(Some(FrameId(frame)), rq).map(|_| ()))?
            };
            if r != Err(Error::Argument) {
                return Err(format!("[C08] zone (offset {offset}) {} of frame {frame} below the offset returned {r:?}, expected Err(Argument)", if put { "put" } else { "get" }));
            }
            let after = g("stats", || format!("{:?}{:?}", z.stats(), z.tree_stats()))?;
            if before != after {
                return Err("[C08] rejected zone call changed the state".into());
            }
            kinds.push("zone_below_offset");
        }
    }
    // construction with bad metadata
    for m in &c.meta {
        let classing = c.cfg.classes.classing();
        let ms = LLFree::metadata_size(&classing, frames);
        let sizes = [ms.local, ms.trees, ms.lower];
        // one region, generously sized, 64-byte aligned
        let region_len = sizes.iter().sum::<usize>() + 4096;
        let region = llfree::util::aligned_buf(region_len.next_multiple_of(64));
        let base = region.as_mut_ptr();
        let slice = |off: usize, len: usize| -> &'static mut [u8] {
            unsafe { core::slice::from_raw_parts_mut(base.add(off), len) }
        };
        // a correct layout: local | trees | lower, each 64-aligned with a gap
        let mut offs = [0usize; 3];
        let mut o = 64;
        for i in 0..3 {
            offs[i] = o;
            o += sizes[i].next_multiple_of(64) + 64;
        }
        let mut lens = sizes;
        let what;
        match *m {
            BadMeta::Small { which, short } => {
                let w = which as usize % 3;
                let short = 1 + short as usize % 64;
                if sizes[w] < short {
                    continue;
                }
                lens[w] = sizes[w] - short;
                what = format!("buffer {w} is {short} byte(s) too small ({} of {})", lens[w], sizes[w]);
                kinds.push("meta_too_small");
            }
            BadMeta::Shifted { which, shift } => {
                let w = which as usize % 3;
                let shift = 1 + shift as usize % 63;
                offs[w] += shift;
                what = format!("buffer {w} is shifted by {shift} bytes off the 64-byte alignment");
                kinds.push("meta_misaligned");
            }
            BadMeta::Overlap { pair, by } => {
                let (x, y) = [(0, 1), (1, 2), (0, 2)][pair as usize % 3];
                if sizes[x] == 0 || sizes[y] == 0 {
                    continue;
                }
                // y starts inside x (64-byte aligned)
                let units = sizes[x].div_ceil(64);
                let inside = (by as usize % units) * 64;
                offs[y] = offs[x] + inside;
                // keep the third buffer clear of both
                let z = 3 - x - y;
                offs[z] = offs[x] + sizes[x].next_multiple_of(64) + sizes[y].next_multiple_of(64) + 128;
                what = format!("buffers {x} and {y} overlap (buffer {y} starts {inside} bytes into buffer {x})");
                kinds.push("meta_overlap");
            }
        }
        if offs.iter().zip(lens.iter()).any(|(o, l)| o + l > region.len()) {
            continue;
        }
        let meta = MetaData {
            local: slice(offs[0], lens[0]),
            trees: slice(offs[1], lens[1]),
            lower: slice(offs[2], lens[2]),
        };
        let r = g("new", || LLFree::new(frames, Init::FreeAll, &classing, meta).map(|_| ()))?;
        if r != Err(Error::Initialization) {
            return Err(format!("[C08] LLFree::new where {what} returned {r:?}, expected Err(Initialization); sizes={sizes:?}"));
        }
        unsafe {
            std::alloc::dealloc(base, std::alloc::Layout::from_size_align(region.len(), 64).unwrap());
        }
    }
    Ok((!kinds.is_empty(), kinds))
}

pub fn run_c08(ctx: &Ctx) -> Finish {
    let thorough = ctx.tier == "thorough";
    let mut ev = Evidence::new(
        "C08",
        &ctx.tier,
        ctx.seed,
        "exploration",
        "on top of a generated allocator state (random history, 1-4 trees, all classings) a generated list of invalid calls: order TREE_ORDER+1..+3; aligned blocks starting at or beyond frames-2^k+1 (first block that no longer fits and further out); frames misaligned by 1..2^k-1; every class id below 8 that is not configured (class lists with gaps included); zone wrapper get/put of frames below a tree-aligned offset; construction with a metadata buffer 1..64 bytes short, shifted 1..63 bytes off alignment, or pairwise overlapping. Second phase: class lists of 1..7 distinct ids below 8 in any order (gaps, permutations, zero-slot classes) with get/put probes for all 8 ids, calls of configured classes interleaved. Oracle: exactly Err(Argument) (construction: Err(Initialization)) and an identical state fingerprint (per-frame status, all tree words, stats, tree_stats, Debug dump incl. local slots) before and after. Non-trivial = case exercising at least one invalid input; distinct by case hash.",
    );
    let w = Weights::base(3);
    let call = || {
        prop_oneof![
            (0u8..3, any::<bool>(), any::<u16>()).prop_map(|(up, put, pos)| BadCall::Order { up, put, pos }),
            (0u8..=TREE_ORDER as u8, any::<bool>(), 0u8..3).prop_map(|(order, put, beyond)| BadCall::Range { order, put, beyond }),
            (any::<u8>(), any::<bool>(), any::<u16>(), any::<u16>()).prop_map(|(order, put, pos, off)| BadCall::Misaligned { order, put, pos, off }),
            (any::<u8>(), any::<bool>(), any::<u8>(), any::<u16>()).prop_map(|(class, put, order, pos)| BadCall::Class { class, put, order, pos }),
            (any::<u8>(), any::<bool>(), any::<u16>(), any::<u8>()).prop_map(|(trees, put, below, order)| BadCall::BelowOffset { trees, put, below, order }),
        ]
    };
    let meta = || {
        prop_oneof![
            (0u8..3, any::<u8>()).prop_map(|(which, short)| BadMeta::Small { which, short }),
            (0u8..3, any::<u8>()).prop_map(|(which, shift)| BadMeta::Shifted { which, shift }),
            (0u8..3, any::<u8>()).prop_map(|(pair, by)| BadMeta::Overlap { pair, by }),
        ]
    };
    let (stats, f) = run_proptest(
        ctx.seed,
        ctx.scale(if thorough { 400_000 } else { 20_000 }),
        || {
            (
                config_strategy(4, false, false, false),
                prop::collection::vec(op_strategy(&w), 0..12),
                prop::collection::vec(call(), 1..8),
                prop::collection::vec(meta(), 0..3),
            )
                .prop_map(|(cfg, setup, calls, meta)| InvalidCase { cfg, setup, calls, meta })
                .boxed()
        },
        |c| verdict("C08", c08_check(c)),
    );
    ev.stats.merge(stats);
    if let Some(f) = f {
        return ctx.fail(ev, "invalid", &f.case, f.msg);
    }
    // class lists with gaps / in any order
    let (stats, f) = run_proptest(
        ctx.seed ^ 0x08,
        ctx.scale(if thorough { 200_000 } else { 10_000 }),
        || {
            (
                frames_strategy(3, false),
                prop::sample::subsequence((0u8..8).collect::<Vec<_>>(), 1..=7).prop_shuffle(),
                prop::collection::vec(prop_oneof![4 => 1usize..=3, 1 => Just(0usize)], 7),
                any::<u16>(),
                prop::collection::vec((0u8..8, any::<bool>(), any::<u8>(), any::<u16>(), any::<bool>(), any::<u16>()), 1..12),
            )
                .prop_map(|(frames, ids, slots, default, probes)| ClassIdCase {
                    frames,
                    classes: ids.into_iter().zip(slots).collect(),
                    default,
                    probes,
                })
                .boxed()
        },
        |c| verdict("C08", c08_ids_check(c)),
    );
    ev.stats.merge(stats);
    if let Some(f) = f {
        return ctx.fail(ev, "classids", &f.case, f.msg);
    }
    ctx.pass(ev)
}
pub fn replay_invalid(c: &InvalidCase) -> Option<String> {
    c08_check(c).err()
}

/// Class lists whose ids are not 0..n in order (the interface takes any list of distinct ids
/// below 8): "configured" is a matter of the ids, not of the position in the list.
#[derive(Serialize, Deserialize, Clone, Debug, Hash, PartialEq, Eq)]
pub struct ClassIdCase {
    pub frames: usize,
    /// (class id, local slots), distinct ids in list order
    pub classes: Vec<(u8, usize)>,
    pub default: Frac,
    /// (class id 0..8, put, order, position, targeted, slot)
    pub probes: Vec<(u8, bool, u8, Frac, bool, Frac)>,
}

fn c08_ids_check(c: &ClassIdCase) -> Result<(bool, Vec<&'static str>), String> {
    let list: Vec<(Class, usize)> = c.classes.iter().map(|&(i, n)| (Class(i), n)).collect();
    let default = list[pick(c.default, list.len())].0;
    let classing = llfree::Classing::new(&list, default, crate::cfg::simple_policy());
    let frames = c.frames;
    let ms = LLFree::metadata_size(&classing, frames);
    let bufs = Bufs::new(&ms);
    let alloc = g("new", || LLFree::new(frames, Init::FreeAll, &classing, unsafe { bufs.meta() }))?
        .map_err(|e| format!("[SETUP-new] {e:?}"))?;
    let inst = Inst { alloc, bufs, classing, ids: (0..8).collect() };
    let a = &inst.alloc;
    let mut kinds: Vec<&'static str> = vec![];
    let dense = c.classes.iter().enumerate().all(|(i, &(id, _))| id as usize == i);
    for &(class, put, order, pos, targeted, slot) in &c.probes {
        let order = order as usize % (TREE_ORDER + 1);
        let len = 1usize << order;
        if frames < len {
            continue;
        }
        let frame = pick(pos, frames / len) * len;
        let configured = c.classes.iter().find(|&&(i, _)| i == class).map(|&(_, n)| n);
        match configured {
            None => {
                let before = g("fingerprint", || fingerprint(&inst))?;
                let rq = Request::new(order, Class(class), None);
                let (what, r) = if put {
                    (format!("put(frame {frame}, order {order}, class {class})"), g("put", || a.put(FrameId(frame), rq))?)
                } else {
                    let t = targeted.then_some(FrameId(frame));
                    (format!("get({t:?}, order {order}, class {class})"), g("get", || a.get(t, rq).map(|_| ()))?)
                };
                if r != Err(Error::Argument) {
                    return Err(format!("[C08] class ids {:?}: {what} returned {r:?}, expected Err(Argument)", c.classes));
                }
                let after = g("fingerprint", || fingerprint(&inst))?;
                if before != after {
                    return Err(format!("[C08] class ids {:?}: rejected call {what} changed the allocator state", c.classes));
                }
                kinds.push(if dense { "class_not_configured" } else { "class_not_configured_sparse_ids" });
            }
            Some(slots) => {
                // a configured class keeps the allocator moving between the rejected calls
                let local = (slots > 0).then(|| pick(slot, slots));
                let rq = Request::new(order, Class(class), local);
                let t = targeted.then_some(FrameId(frame));
                if let Ok((f, _)) = g("get", || a.get(t, rq))? {
                    if put {
                        let _ = g("put", || a.put(f, rq))?;
                    }
                }
            }
        }
    }
    Ok((!kinds.is_empty(), kinds))
}
pub fn replay_class_ids(c: &ClassIdCase) -> Option<String> {
    c08_ids_check(c).err()
}

// =======================================================================================
// C12

#[derive(Serialize, Deserialize, Clone, Debug, Hash, PartialEq, Eq)]
pub enum HugePat {
    Free,
    Whole,
    /// per-row pattern codes (ROWS entries, repeated if shorter)
    Rows(Vec<u8>),
}

#[derive(Serialize, Deserialize, Clone, Debug, Hash, PartialEq, Eq)]
pub struct TreeCase {
    /// managed frames: one full tree plus this many frames of a second tree
    pub extra: usize,
    /// patterns of the huge frames of tree 0 and 1
    pub huge: Vec<HugePat>,
    /// (order, hint fraction over the rows of the managed range, which tree)
    pub probes: Vec<(u8, Frac, bool)>,
    pub seed_rows: Vec<u64>,
}

fn row_pattern(code: u8, rnd: u64) -> u64 {
    match code % 10 {
        0 => 0,
        1 => u64::MAX,
        2 => !(1u64 << (rnd % 64)),                   // one hole
        3 => 1u64 << (rnd % 64),                      // one bit
        4 => 0xffff_ffff_0000_0000,
        5 => 0x0000_0000_ffff_ffff,
        6 => 0x00ff_00ff_00ff_00ff,
        7 => rnd,
        8 => rnd | (rnd >> 7) | 0x8000_0000_0000_0001,
        _ => 0,
    }
}

fn c12_check(c: &TreeCase) -> Result<(bool, Vec<&'static str>), String> {
    let frames = TREE_FRAMES + c.extra % TREE_FRAMES;
    let cfg = Config {
        frames,
        init: InitKind::FreeAll,
        classes: ClassKind::Simple([1, 1]),
    };
    let inst = g("new", || Inst::build(&cfg))?.map_err(|e| format!("[SETUP] {e:?}"))?;
    let lower = &inst.alloc.lower;
    // build the pattern through the lower allocator's own API, tracking a model
    let mut alloc = vec![false; frames];
    let nhuge = frames.div_ceil(HUGE_FRAMES);
    let mut whole = vec![false; nhuge];
    let rows = HUGE_FRAMES / 64;
    let mut any_row = TreeId(0).as_row();
    for h in 0..nhuge {
        let start = h * HUGE_FRAMES;
        let managed = (frames - start).min(HUGE_FRAMES);
        match c.huge.get(h % c.huge.len().max(1)).unwrap_or(&HugePat::Free) {
            HugePat::Free => {}
            HugePat::Whole if managed == HUGE_FRAMES => {
                any_row.0 = start / 64;
                g("lower.get", || lower.get(any_row, HUGE_ORDER, Some(FrameId(start))))?
                    .map_err(|e| format!("[SETUP] building pattern: huge get failed {e:?}"))?;
                alloc[start..start + HUGE_FRAMES].fill(true);
                whole[h] = true;
            }
            HugePat::Whole => {}
            HugePat::Rows(codes) => {
                for r in 0..rows {
                    let code = codes[r % codes.len().max(1)];
                    let rnd = c.seed_rows.get((h * rows + r) % c.seed_rows.len().max(1)).copied().unwrap_or(0x9e37_79b9_7f4a_7c15);
                    let pat = row_pattern(code, rnd);
                    if pat == u64::MAX && r * 64 + 64 <= managed {
                        any_row.0 = (start + r * 64) / 64;
                        g("lower.get", || lower.get(any_row, 6, Some(FrameId(start + r * 64))))?
                            .map_err(|e| format!("[SETUP] building pattern: row get failed {e:?}"))?;
                        alloc[start + r * 64..start + r * 64 + 64].fill(true);
                        continue;
                    }
                    for b in 0..64 {
                        let f = start + r * 64 + b;
                        if pat >> b & 1 == 1 && f < frames {
                            any_row.0 = f / 64;
                            g("lower.get", || lower.get(any_row, 0, Some(FrameId(f))))?
                                .map_err(|e| format!("[SETUP] building pattern: get({f}) failed {e:?}"))?;
                            alloc[f] = true;
                        }
                    }
                }
            }
        }
    }
    let block_free = |alloc: &Vec<bool>, f: usize, order: usize| -> bool {
        f + (1 << order) <= frames && alloc[f..f + (1 << order)].iter().all(|a| !*a)
    };
    let mut nontrivial = false;
    let mut kinds = vec![];
    for &(order, hint, second) in &c.probes {
        let order = order as usize % (TREE_ORDER + 1);
        let tree = if second && frames > TREE_FRAMES { 1 } else { 0 };
        let t_start = tree * TREE_FRAMES;
        let t_end = ((tree + 1) * TREE_FRAMES).min(frames);
        // row hint: any row of this tree whose index is below the managed frames
        let trows = (t_end - t_start).div_ceil(64);
        let mut hint_row = TreeId(tree).as_row();
        hint_row.0 += pick(hint, trows.max(1));
        let len = 1usize << order;
        let candidates: Vec<usize> = (t_start..t_end)
            .step_by(len)
            .filter(|&f| block_free(&alloc, f, order))
            .collect();
        let hint_frame = hint_row.0 * 64;
        let r = g("lower.get", || lower.get(hint_row, order, None))?;
        let ctxs = format!("order={order} tree={tree} hint_row={} frames={frames} candidates={}", hint_row.0, candidates.len());
        match r {
            Err(e) => {
                if !candidates.is_empty() {
                    return Err(format!(
                        "[C12] directed allocation failed with {e:?} although {} aligned free block(s) exist in the tree, e.g. at frame {}; {ctxs}",
                        candidates.len(),
                        candidates[0]
                    ));
                }
                // a failing search must not change anything
                for f in t_start..t_end {
                    let free = g("is_free", || lower.is_free(FrameId(f), 0))?;
                    if free == alloc[f] {
                        return Err(format!("[C12] failing directed allocation changed frame {f}; {ctxs}"));
                    }
                }
            }
            Ok(fr) => {
                let f = fr.0;
                if f % len != 0 || f < t_start || f + len > t_end || !block_free(&alloc, f, order) {
                    return Err(format!("[C12] directed allocation returned frame {f}, which is not an aligned free block inside the tree; {ctxs}"));
                }
                // exactly that block changed
                for x in t_start..t_end {
                    let want_alloc = alloc[x] || (x >= f && x < f + len);
                    let free = g("stats_at", || inst.alloc.stats_at(FrameId(x), 0).free_frames == 1)?;
                    if free == want_alloc {
                        return Err(format!("[C12] after allocating block {f}+{len}, frame {x} is reported free={free}; {ctxs}"));
                    }
                }
                if candidates.len() == 1 {
                    nontrivial = true;
                    kinds.push("single_candidate");
                }
                if candidates.iter().all(|c| *c < hint_frame) {
                    nontrivial = true;
                    kinds.push("only_before_hint");
                }
                if candidates.iter().all(|c| c + len > t_end - 64.max(len)) {
                    nontrivial = true;
                    kinds.push("only_in_last_row_or_block");
                }
                // undo, so that the next probe sees the same pattern
                g("lower.put", || lower.put(fr, order))?
                    .map_err(|e| format!("[C12] undo put({f}, {order}) failed: {e:?}"))?;
                // a base-order undo inside a whole... cannot happen: the block was free
            }
        }
    }
    let _ = (whole, TREE_HUGE);
    kinds.dedup();
    Ok((nontrivial, kinds))
}

fn tree_case_strategy() -> BoxedStrategy<TreeCase> {
    let rows = HUGE_FRAMES / 64;
    let huge = prop_oneof![
        2 => Just(HugePat::Free),
        2 => Just(HugePat::Whole),
        2 => Just(HugePat::Rows(vec![1])),
        6 => prop::collection::vec(0u8..9, rows).prop_map(HugePat::Rows),
        2 => prop::collection::vec(prop_oneof![3 => Just(1u8), 1 => Just(2u8), 1 => Just(0u8)], rows).prop_map(HugePat::Rows),
    ];
    (
        prop_oneof![2 => Just(0usize), 2 => 1..TREE_FRAMES, 1 => (1..=TREE_HUGE).prop_map(|h| h * HUGE_FRAMES % TREE_FRAMES)],
        prop::collection::vec(huge, 2 * TREE_HUGE),
        prop::collection::vec((0u8..=TREE_ORDER as u8, any::<u16>(), any::<bool>()), 1..24),
        prop::collection::vec(any::<u64>(), 16),
    )
        .prop_map(|(extra, huge, probes, seed_rows)| TreeCase { extra, huge, probes, seed_rows })
        .boxed()
}

pub fn run_c12(ctx: &Ctx) -> Finish {
    let thorough = ctx.tier == "thorough";
    let mut ev = Evidence::new(
        "C12",
        &ctx.tier,
        ctx.seed,
        "exploration",
        "a one-tree-plus allocator (second tree full, partial or absent) whose huge frames are put into generated patterns through the lower allocator's own API: entirely free, whole-allocated (huge marker), or row patterns (per row: empty, full, one hole, one bit, half rows, byte stripes, random); enumerated row-level family: every assignment of {empty, full, one hole, one bit} to the 8 rows of one huge frame. Then up to 24 probes (order 0..=TREE_ORDER, row hint anywhere below the managed frames of the tree) call lower.get(hint, order, None). Oracle: failure only if a naive scan finds no aligned all-free block of that order in the tree, and nothing changed; success returns an aligned block that was free and afterwards exactly its frames changed (checked per frame), then it is freed again. Non-trivial = probe with exactly one candidate block, or candidates only before the hint (wrap-around), or only in the last row/block; distinct by case hash.",
    );
    // enumerated: 4^ROWS assignments for one huge frame (ROWS = 8 for 4K frames)
    let rows = HUGE_FRAMES / 64;
    if rows <= 8 {
        let total = 4u64.pow(rows as u32);
        let (stats, f) = run_indexed(
            total,
            |i| {
                let mut r = i;
                let mut codes = Vec::new();
                for _ in 0..rows {
                    codes.push([0u8, 1, 2, 3][(r % 4) as usize]);
                    r /= 4;
                }
                let mut huge = vec![HugePat::Rows(vec![1]); 2 * TREE_HUGE];
                huge[TREE_HUGE - 1] = HugePat::Rows(codes);
                Some(TreeCase {
                    extra: 0,
                    huge,
                    probes: (0..=HUGE_ORDER as u8).map(|o| (o, (i % 7 * 9000) as u16, false)).collect(),
                    seed_rows: vec![i.wrapping_mul(0x9e37_79b9_7f4a_7c15), i],
                })
            },
            |c| verdict("C12", c12_check(c)),
        );
        ev.stats.merge(stats);
        if let Some(f) = f {
            return ctx.fail(ev, "tree", &f.case, f.msg);
        }
        ev.stats.exhaustive.push(format!("every assignment of {{empty, full, one hole, one bit}} to the {rows} rows of the last huge frame of an otherwise full tree ({total} patterns) x orders 0..=HUGE_ORDER"));
    }
    let (stats, f) = run_proptest(
        ctx.seed,
        ctx.scale(if thorough { 300_000 } else { 12_000 }),
        tree_case_strategy,
        |c| verdict("C12", c12_check(c)),
    );
    ev.stats.merge(stats);
    if let Some(f) = f {
        return ctx.fail(ev, "tree", &f.case, f.msg);
    }
    ctx.pass(ev)
}
pub fn replay_tree(c: &TreeCase) -> Option<String> {
    c12_check(c).err()
}

// =======================================================================================
// C17

#[derive(Serialize, Deserialize, Clone, Debug, Hash, PartialEq, Eq)]
pub struct WrapCase {
    /// zone wrapper: offset in trees, inner frames
    pub offset_trees: u8,
    pub frames: usize,
    /// (get: order, target fraction or none) / put of held index
    pub ops: Vec<WrapOp>,
    /// persistent wrapper: zone length in frames (incl. metadata + header)
    pub zone_frames: usize,
    pub bad_recover: u8,
}
#[derive(Serialize, Deserialize, Clone, Debug, Hash, PartialEq, Eq)]
pub enum WrapOp {
    Get { order: u8, target: Option<Frac>, class: u8 },
    Put { idx: Frac },
    PutBelow { below: Frac },
    Drain,
}

struct Mapping {
    ptr: *mut u8,
    len: usize,
    aligned: *mut u8,
}
impl Mapping {
    fn new(bytes: usize, align: usize) -> Self {
        let len = bytes + align;
        let ptr = unsafe {
            libc::mmap(core::ptr::null_mut(), len, libc::PROT_READ | libc::PROT_WRITE, libc::MAP_PRIVATE | libc::MAP_ANONYMOUS | libc::MAP_NORESERVE, -1, 0)
        };
        assert!(ptr != libc::MAP_FAILED);
        let ptr = ptr.cast::<u8>();
        let aligned = ((ptr as usize).next_multiple_of(align)) as *mut u8;
        Self { ptr, len, aligned }
    }
}
impl Drop for Mapping {
    fn drop(&mut self) {
        unsafe { libc::munmap(self.ptr.cast(), self.len) };
    }
}

fn c17_check(c: &WrapCase) -> Result<(bool, Vec<&'static str>), String> {
    let classes = ClassKind::Simple([1, 1]);
    let classing = classes.classing();
    let mut kinds = vec![];
    // ---- zone wrapper vs inner twin
    let frames = c.frames.max(1);
    let offset = (c.offset_trees as usize % 5) * TREE_FRAMES;
    let ms = LLFree::metadata_size(&classing, frames);
    let zb = Bufs::new(&ms);
    let zone = g("ZoneAlloc::create", || ZoneAlloc::<LLFree>::create(offset, frames, Init::FreeAll, &classing, unsafe { zb.meta() }))?
        .map_err(|e| format!("[C17] ZoneAlloc::create(offset={offset}, frames={frames}) failed: {e:?}"))?;
    let twin = g("new", || Inst::build_with(frames, Init::FreeAll, &classes, None))?.map_err(|e| format!("[SETUP] {e:?}"))?;
    let mut held: Vec<(usize, usize)> = vec![]; // (zone frame, order)
    for op in &c.ops {
        match op {
            WrapOp::Get { order, target, class } => {
                let order = *order as usize % (TREE_ORDER + 1);
                if frames >> order == 0 {
                    continue;
                }
                let t = target.map(|f| pick(f, frames >> order) << order);
                let rq = Request::new(order, Class(class % 2), Some(0));
                let rz = g("zone get", || zone.get(t.map(|x| FrameId(x + offset)), rq))?;
                let rt = g("twin get", || twin.alloc.get(t.map(FrameId), rq))?;
                let want = rt.map(|(f, cl)| (f.0 + offset, cl.0));
                let got = rz.map(|(f, cl)| (f.0, cl.0));
                if got != want {
                    return Err(format!("[C17] zone(offset {offset}).get({t:?}+offset, order {order}) = {got:?}, inner allocator + offset = {want:?}"));
                }
                if let Ok((f, _)) = got {
                    held.push((f, order));
                }
            }
            WrapOp::Put { idx } => {
                if held.is_empty() {
                    continue;
                }
                let (f, order) = held.swap_remove(pick(*idx, held.len()));
                let rq = Request::new(order, Class(0), Some(0));
                let rz = g("zone put", || zone.put(FrameId(f), rq))?;
                let rt = g("twin put", || twin.alloc.put(FrameId(f - offset), rq))?;
                if rz != rt || rz.is_err() {
                    return Err(format!("[C17] zone put(frame {f}) = {rz:?}, inner put = {rt:?}"));
                }
            }
            WrapOp::PutBelow { below } => {
                if offset == 0 {
                    continue;
                }
                let f = pick(*below, offset);
                let rq = Request::new(0, Class(0), None);
                let r1 = g("zone put", || zone.put(FrameId(f), rq))?;
                let r2 = g("zone get", || zone.get(Some(FrameId(f)), rq).map(|_| ()))?;
                if r1 != Err(Error::Argument) || r2 != Err(Error::Argument) {
                    return Err(format!("[C17] zone(offset {offset}) put/get of frame {f} below the offset returned {r1:?}/{r2:?}, expected Err(Argument)"));
                }
                // queries: nothing below the offset belongs to the zone, so nothing there is free
                for order in [0, HUGE_ORDER, TREE_ORDER] {
                    let fa = f >> order << order;
                    let q = g("zone stats_at", || zone.stats_at(FrameId(fa), order))?;
                    if q.free_frames != 0 || q.free_huge != 0 || q.free_trees != 0 {
                        return Err(format!("[C17] zone(offset {offset}).stats_at(frame {fa} below the offset, order {order}) reports free memory: {q:?}"));
                    }
                }
                kinds.push("below_offset");
            }
            WrapOp::Drain => {
                g("drain", || {
                    zone.drain();
                    twin.alloc.drain()
                })?;
            }
        }
        // queries forward the same way
        let (sz, st) = g("stats", || (format!("{:?}{:?}", zone.stats(), zone.tree_stats()), format!("{:?}{:?}", twin.alloc.stats(), twin.alloc.tree_stats())))?;
        if sz != st {
            return Err(format!("[C17] zone statistics {sz} differ from the inner allocator's {st}"));
        }
    }
    g("stats_at", || {
        for f in (0..frames).step_by(1 + frames / 97) {
            let a = zone.stats_at(FrameId(f + offset), 0).free_frames;
            let b = twin.alloc.stats_at(FrameId(f), 0).free_frames;
            if a != b {
                return Err(format!("[C17] zone.stats_at(frame {}+offset) = {a}, inner = {b}", f));
            }
            for order in [HUGE_ORDER, TREE_ORDER] {
                let fa = f >> order << order;
                let a = format!("{:?}", zone.stats_at(FrameId(fa + offset), order));
                let b = format!("{:?}", twin.alloc.stats_at(FrameId(fa), order));
                if a != b {
                    return Err(format!("[C17] zone.stats_at(frame {fa}+offset, order {order}) = {a}, inner = {b}"));
                }
            }
        }
        Ok(())
    })??;
    if offset > 0 && !held.is_empty() {
        kinds.push("zone_nonzero_offset_with_held");
    }
    drop(zone);
    // ---- persistent wrapper
    let zlen = c.zone_frames;
    let align = Frame::SIZE << TREE_ORDER;
    let map = Mapping::new(zlen * Frame::SIZE, align);
    let mk_zone = |len: usize, skip: usize| -> &'static mut [Frame] {
        unsafe { core::slice::from_raw_parts_mut(map.aligned.cast::<Frame>().add(skip), len) }
    };
    // the instance lives in [iskip, zlen): sometimes it does not start at the mapping's base, so
    // that a larger region with the same end (and therefore the same header page) exists
    let iskip = if c.bad_recover % 3 == 2 && zlen > 2 * TREE_FRAMES + 64 { TREE_FRAMES } else { 0 };
    let ilen = zlen - iskip;
    let nm = LLFree::metadata_size(&classing, ilen);
    let vol = || (llfree::util::aligned_buf(nm.local.max(64)), llfree::util::aligned_buf(nm.trees.max(64)));
    let (l0, t0) = vol();
    // untouched memory holds no instance
    let r = g("NvmAlloc::create(recover)", || NvmAlloc::<LLFree>::create(mk_zone(zlen, 0), true, &classing, l0, t0).map(|_| ()))?;
    if r != Err(Error::Initialization) {
        return Err(format!("[C17] recovering untouched memory returned {r:?}, expected Err(Initialization)"));
    }
    // in half of the cases the region was formatted before, by an instance of another size whose
    // header sat in the same page (larger region with the same end, or smaller one): creating the
    // instance under test must replace it completely
    if c.bad_recover % 2 == 1 {
        let (olen, oskip) = if iskip > 0 {
            (zlen, 0)
        } else if ilen > TREE_FRAMES + 64 {
            (ilen - TREE_FRAMES, TREE_FRAMES)
        } else {
            (0, 0)
        };
        if olen > 0 {
            let no = LLFree::metadata_size(&classing, olen);
            let (lo, to) = (llfree::util::aligned_buf(no.local.max(64)), llfree::util::aligned_buf(no.trees.max(64)));
            let old = g("NvmAlloc::create (older instance)", || NvmAlloc::<LLFree>::create(mk_zone(olen, oskip), false, &classing, lo, to))?
                .map_err(|e| format!("[C17] NvmAlloc::create(older instance, zone of {olen} frames) failed: {e:?}"))?;
            let _ = g("nvm get", || old.get(None, Request::new(0, Class(0), Some(0))))?;
            drop(old);
            kinds.push("reformatted_over_older_instance");
        }
    }
    let (l1, t1) = vol();
    let nvm = g("NvmAlloc::create", || NvmAlloc::<LLFree>::create(mk_zone(ilen, iskip), false, &classing, l1, t1))?
        .map_err(|e| format!("[C17] NvmAlloc::create(zone of {ilen} frames) failed: {e:?}"))?;
    let managed = nvm.frames();
    let base_frame = map.aligned as usize / Frame::SIZE + iskip;
    let meta_pages = nm.lower.div_ceil(Frame::SIZE);
    let protected = base_frame + ilen - 1 - meta_pages..base_frame + ilen;
    if managed + meta_pages + 1 > ilen {
        return Err(format!("[C17] persistent allocator manages {managed} frames of a {ilen}-frame zone with {meta_pages} metadata pages + header"));
    }
    let mut nheld: Vec<(usize, usize)> = vec![];
    for op in &c.ops {
        match op {
            WrapOp::Get { order, target, class } => {
                let order = *order as usize % (TREE_ORDER + 1);
                if managed >> order == 0 {
                    continue;
                }
                let t = target.map(|f| FrameId(base_frame + (pick(f, managed >> order) << order)));
                let rq = Request::new(order, Class(class % 2), Some(0));
                if let Ok((f, _)) = g("nvm get", || nvm.get(t, rq))? {
                    let (s, e) = (f.0, f.0 + (1 << order));
                    if s < base_frame || e > base_frame + managed || (s < protected.end && protected.start < e) {
                        return Err(format!(
                            "[C17] persistent allocator returned frames {s}..{e}, outside its managed range {}..{} / overlapping its metadata+header pages {:?}",
                            base_frame,
                            base_frame + managed,
                            protected
                        ));
                    }
                    nheld.push((f.0, order));
                }
            }
            WrapOp::Put { idx } => {
                if nheld.is_empty() {
                    continue;
                }
                let (f, order) = nheld.swap_remove(pick(*idx, nheld.len()));
                let r = g("nvm put", || nvm.put(FrameId(f), Request::new(order, Class(0), Some(0))))?;
                if r.is_err() {
                    return Err(format!("[C17] persistent allocator put(frame {f}, order {order}) failed: {r:?}"));
                }
            }
            _ => {}
        }
    }
    // exhaust the base frames as well: none may land in the protected pages
    let state: Vec<bool> = g("scan", || (0..managed).map(|i| nvm.stats_at(FrameId(base_frame + i), 0).free_frames == 1).collect())?;
    drop(nvm);
    // regions that hold no instance of the same size must be refused:
    //   larger region with the same end (same header page), smaller region with the same end,
    //   shorter region from the same start (its last page is not the header)
    let mut bad: Vec<(usize, usize, &str)> = vec![];
    if iskip > 0 {
        bad.push((zlen, 0, "larger region ending at the same header page"));
    }
    if ilen > TREE_FRAMES + 64 {
        bad.push((ilen - TREE_FRAMES, iskip + TREE_FRAMES, "smaller region ending at the same header page"));
    }
    if ilen > 64 {
        bad.push((ilen - 1, iskip, "region one frame shorter from the same start"));
    }
    for (len, skip, what) in bad {
        let (l2, t2) = vol();
        let r = g("NvmAlloc::create(recover other size)", || NvmAlloc::<LLFree>::create(mk_zone(len, skip), true, &classing, l2, t2).map(|_| ()))?;
        if r != Err(Error::Initialization) {
            return Err(format!("[C17] recovering a {what} ({len} frames starting {skip} frames into the mapping; the instance has {ilen} frames starting at {iskip}) returned {r:?}, expected Err(Initialization)"));
        }
        kinds.push("recover_size_mismatch");
    }
    // recover the instance: same allocation state
    let (l3, t3) = vol();
    let rec = g("NvmAlloc::create(recover)", || NvmAlloc::<LLFree>::create(mk_zone(ilen, iskip), true, &classing, l3, t3))?
        .map_err(|e| format!("[C17] recovering the instance failed: {e:?}"))?;
    let state2: Vec<bool> = g("scan", || (0..managed).map(|i| rec.stats_at(FrameId(base_frame + i), 0).free_frames == 1).collect())?;
    if let Some(i) = (0..managed).find(|&i| state[i] != state2[i]) {
        return Err(format!("[C17] after recovery frame {i} (zone-relative) is free={}, before the restart free={}", state2[i], state[i]));
    }
    for (f, order) in &nheld {
        let r = g("nvm put", || rec.put(FrameId(*f), Request::new(*order, Class(0), None)))?;
        if r.is_err() {
            return Err(format!("[C17] block (frame {f}, order {order}) held across the restart cannot be freed: {r:?}"));
        }
    }
    let nt = !nheld.is_empty();
    if nt {
        kinds.push("held_across_recover");
    }
    Ok((nt, kinds))
}

pub fn run_c17(ctx: &Ctx) -> Finish {
    let thorough = ctx.tier == "thorough";
    let mut ev = Evidence::new(
        "C17",
        &ctx.tier,
        ctx.seed,
        "exploration",
        "generated (offset 0..4 trees, inner size, op list, persistent zone size 1-3 trees + remainder, bad-recover variant). Zone wrapper: every get/put/drain runs on ZoneAlloc<LLFree> and on an inner LLFree twin; results must equal twin + offset, statistics and sampled stats_at (base, huge and tree order) must agree, frames below the offset give Err(Argument) for get/put and report nothing free in stats_at. Persistent wrapper on a tree-aligned anonymous mapping: recovering untouched memory fails with Initialization; in half of the cases an older instance of another size is formatted over the same header page first; after create + generated gets/puts every returned block lies inside the managed range and outside [lower metadata pages, header page]; recovering a shifted or shorter region fails with Initialization; recovering the instance yields the identical per-frame state and every block held across the restart can be freed. Non-trivial = at least one block held across the recover; distinct by case hash.",
    );
    let op = || {
        prop_oneof![
            6 => (prop_oneof![3 => Just(0u8), 2 => 0u8..=TREE_ORDER as u8], prop::option::of(any::<u16>()), any::<u8>())
                .prop_map(|(order, target, class)| WrapOp::Get { order, target, class }),
            3 => any::<u16>().prop_map(|idx| WrapOp::Put { idx }),
            1 => any::<u16>().prop_map(|below| WrapOp::PutBelow { below }),
            1 => Just(WrapOp::Drain),
        ]
    };
    let (stats, f) = run_proptest(
        ctx.seed,
        ctx.scale(if thorough { 100_000 } else { 4_000 }),
        move || {
            (
                0u8..5,
                frames_strategy(3, false),
                prop::collection::vec(op(), 1..30),
                (1usize..=3, 0usize..TREE_FRAMES).prop_map(|(t, r)| t * TREE_FRAMES + r.max(40)),
                any::<u8>(),
            )
                .prop_map(|(offset_trees, frames, ops, zone_frames, bad_recover)| WrapCase {
                    offset_trees,
                    frames,
                    ops,
                    zone_frames,
                    bad_recover,
                })
                .boxed()
        },
        |c| verdict("C17", c17_check(c)),
    );
    ev.stats.merge(stats);
    if let Some(f) = f {
        return ctx.fail(ev, "wrap", &f.case, f.msg);
    }
    ctx.pass(ev)
}
pub fn replay_wrap(c: &WrapCase) -> Option<String> {
    c17_check(c).err()
}
