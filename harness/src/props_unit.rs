//! Engine E3: component-level generated checks (C16, C19, C23).

use std::collections::HashSet;
use std::sync::Mutex;
use std::sync::atomic::{AtomicU64, Ordering};

use llfree::util::{OrdBy, SortedBuffer};
use llfree::verif_api::verif_first_zeros_aligned;
use llfree::{Alloc, Class, Error, Policy, TREE_FRAMES, TreeId};
use proptest::prelude::*;
use serde::{Deserialize, Serialize};
use serde_json::json;

use crate::cfg::{ClassKind, Config, InitKind};
use crate::e1::run_setup;
use crate::known;
use crate::ops::*;
use crate::runner::*;
use crate::{Ctx, Finish};

fn own_verdict(prop: &str, r: Result<(bool, Vec<&'static str>), String>) -> Verdict {
    match r {
        Ok((nontrivial, classes)) => Verdict::Pass {
            nontrivial,
            classes,
        },
        Err(m) => match known::matches(prop, &m) {
            Some(k) => Verdict::Known(k.id.clone()),
            None => Verdict::Fail(m),
        },
    }
}

// =======================================================================================
// C23: row bit search

/// Naive reference: scan aligned positions upward.
fn ref_first_zeros(v: u64, order: usize) -> Option<(u64, usize)> {
    let len = 1usize << order;
    let mask0 = if len == 64 { u64::MAX } else { (1u64 << len) - 1 };
    let mut p = 0;
    while p < 64 {
        let m = mask0 << p;
        if v & m == 0 {
            return Some((v | m, p));
        }
        p += len;
    }
    None
}

fn c23_nontrivial(v: u64, order: usize) -> bool {
    if v == 0 || v == u64::MAX {
        return false;
    }
    // at least one free aligned block above a non-free one
    match ref_first_zeros(v, order) {
        Some((_, p)) => p > 0,
        None => false,
    }
}

#[derive(Serialize, Deserialize, Clone, Debug, Hash, PartialEq, Eq)]
pub struct RowCase {
    pub row: u64,
    pub order: usize,
}

fn c23_check(c: &RowCase) -> Result<(bool, Vec<&'static str>), String> {
    let got = verif_first_zeros_aligned(c.row, c.order);
    let want = ref_first_zeros(c.row, c.order);
    if got != want {
        return Err(format!(
            "[C23] first_zeros_aligned({:#018x}, order {}) = {:x?}, reference (lowest aligned all-free block, exactly its bits set) = {:x?}",
            c.row, c.order, got, want
        ));
    }
    Ok((c23_nontrivial(c.row, c.order), vec![]))
}

const PATTERNS: [u8; 8] = [0x00, 0xff, 0x01, 0x80, 0x7f, 0xfe, 0x10, 0xaa];

pub fn run_c23(ctx: &Ctx) -> Finish {
    let thorough = ctx.tier == "thorough";
    let mut ev = Evidence::new(
        "C23",
        &ctx.tier,
        ctx.seed,
        "exploration",
        "inputs = (64-bit row, order 0..=6) given to the compiled row search through the `verif` re-export. Sub-spaces: (a) every row whose 8 bytes come from the pattern set {00,FF,01,80,7F,FE,10,AA} (8^8 rows, exhaustive) x 7 orders; (b) every row with at most 2 set or at most 2 clear bits x 7 orders (exhaustive); (c) for orders 3..6 every row whose aligned blocks are each empty/full/lowest-bit/highest-bit (exhaustive); (d) proptest-generated rows (uniform and edge-biased). Oracle: naive upward scan of aligned positions: None iff no all-free aligned block, else the lowest one and row | mask(block). Non-trivial = row neither 0 nor !0 whose lowest free aligned block lies above a non-free one; distinct counted exactly for sub-space (a) (rows distinct by construction), sub-spaces (b)-(d) are not added to the distinct count. The 2^64 row space is NOT covered.",
    );
    ev.assumptions.push("the function is pure; 2^64 x 7 inputs are sampled, the listed finite sub-spaces are enumerated completely".into());
    let evals = AtomicU64::new(0);
    let nt = AtomicU64::new(0);
    let fail: Mutex<Option<(RowCase, String)>> = Mutex::new(None);
    // (a) pattern rows, in parallel over the two top bytes
    let total_a: u64 = if ctx.scale_pct < 100 && !thorough { 8u64.pow(7) } else { 8u64.pow(8) };
    {
        let next = AtomicU64::new(0);
        const CHUNK: u64 = 1 << 14;
        std::thread::scope(|s| {
            for _ in 0..threads() {
                s.spawn(|| {
                    let (mut e, mut n) = (0u64, 0u64);
                    loop {
                        let start = next.fetch_add(CHUNK, Ordering::Relaxed);
                        if start >= total_a || fail.lock().unwrap().is_some() {
                            break;
                        }
                        for i in start..(start + CHUNK).min(total_a) {
                            let mut row = 0u64;
                            let mut r = i;
                            for b in 0..8 {
                                row |= (PATTERNS[(r % 8) as usize] as u64) << (8 * b);
                                r /= 8;
                            }
                            for order in 0..=6 {
                                let c = RowCase { row, order };
                                e += 1;
                                match c23_check(&c) {
                                    Ok((true, _)) => n += 1,
                                    Ok(_) => {}
                                    Err(m) => {
                                        let mut f = fail.lock().unwrap();
                                        if f.is_none() {
                                            *f = Some((c, m));
                                        }
                                        return;
                                    }
                                }
                            }
                        }
                    }
                    evals.fetch_add(e, Ordering::Relaxed);
                    nt.fetch_add(n, Ordering::Relaxed);
                });
            }
        });
    }
    let mut samples = vec![];
    // (b) few bits
    let mut few: Vec<u64> = vec![0, u64::MAX];
    for i in 0..64 {
        few.push(1 << i);
        few.push(!(1u64 << i));
        for j in 0..i {
            few.push((1 << i) | (1 << j));
            few.push(!((1u64 << i) | (1 << j)));
        }
    }
    // (c) per-block structured rows for orders 3..=6
    let mut structured: Vec<(u64, usize)> = Vec::new();
    for order in 3..=6usize {
        let len = 1usize << order;
        let blocks = 64 / len;
        let full = if len == 64 { u64::MAX } else { (1u64 << len) - 1 };
        let kinds = [0u64, full, 1, 1u64 << (len - 1)];
        let total = 4u64.pow(blocks as u32);
        for i in 0..total {
            let mut row = 0u64;
            let mut r = i;
            for b in 0..blocks {
                row |= kinds[(r % 4) as usize] << (b * len);
                r /= 4;
            }
            structured.push((row, order));
        }
    }
    let mut run_one = |c: RowCase, fail: &Mutex<Option<(RowCase, String)>>| {
        evals.fetch_add(1, Ordering::Relaxed);
        match c23_check(&c) {
            Ok((true, _)) => {
                if samples.len() < 3 {
                    samples.push(json!({"row": format!("{:#018x}", c.row), "order": c.order,
                        "result": format!("{:x?}", ref_first_zeros(c.row, c.order))}));
                }
            }
            Ok(_) => {}
            Err(m) => {
                let mut f = fail.lock().unwrap();
                if f.is_none() {
                    *f = Some((c, m));
                }
            }
        }
    };
    for &row in &few {
        for order in 0..=6 {
            run_one(RowCase { row, order }, &fail);
        }
    }
    for &(row, order) in &structured {
        run_one(RowCase { row, order }, &fail);
        // the same row at every smaller order as well
        for o in 0..order {
            run_one(RowCase { row, order: o }, &fail);
        }
    }
    if let Some((c, m)) = fail.lock().unwrap().take() {
        ev.stats.evaluations = evals.load(Ordering::Relaxed);
        return ctx.fail(ev, "row", &c, m);
    }
    ev.stats.exhaustive.push(format!("(a) {total_a} pattern rows x 7 orders"));
    ev.stats.exhaustive.push(format!("(b) {} rows with <=2 set or <=2 clear bits x 7 orders", few.len()));
    ev.stats.exhaustive.push(format!("(c) {} per-block structured (row, order) pairs, each also at all smaller orders", structured.len()));
    // (d) proptest rows
    let cases = ctx.scale(if thorough { 20_000_000 } else { 2_000_000 });
    let (stats, f) = run_proptest(
        ctx.seed,
        cases,
        || {
            (
                prop_oneof![
                    3 => any::<u64>(),
                    1 => (any::<u64>(), any::<u64>()).prop_map(|(a, b)| a & b),
                    1 => (any::<u64>(), any::<u64>()).prop_map(|(a, b)| a | b),
                    1 => (any::<u64>(), 0u32..64).prop_map(|(a, s)| a << s),
                    1 => (any::<u64>(), 0u32..64).prop_map(|(a, s)| !(a >> s)),
                ],
                0usize..=6,
            )
                .prop_map(|(row, order)| RowCase { row, order })
                .boxed()
        },
        |c| own_verdict("C23", c23_check(c)),
    );
    if let Some(f) = f {
        ev.stats.merge(stats);
        return ctx.fail(ev, "row", &f.case, f.msg);
    }
    let generated_nt = stats.nontrivial.len();
    ev.stats.merge(stats);
    ev.stats.evaluations += evals.load(Ordering::Relaxed);
    // distinct non-trivial: exact for (a) + distinct generated ones (disjointness not checked => conservative: max)
    let a_nt = nt.load(Ordering::Relaxed);
    ev.extra.insert("nontrivial_in_subspace_a".into(), json!(a_nt));
    ev.extra.insert("nontrivial_generated_distinct".into(), json!(generated_nt));
    ev.stats.nontrivial = (0..a_nt.max(generated_nt as u64)).collect();
    for s in samples {
        ev.stats.nontrivial_samples.insert(0, s);
    }
    ctx.pass(ev)
}

pub fn replay_row_quiet(c: &RowCase) -> Option<String> {
    c23_check(c).err()
}

pub fn replay_row(c: &RowCase) -> Option<String> {
    println!(
        "first_zeros_aligned({:#018x}, {}) = {:x?}; reference = {:x?}",
        c.row,
        c.order,
        verif_first_zeros_aligned(c.row, c.order),
        ref_first_zeros(c.row, c.order)
    );
    c23_check(c).err()
}

// =======================================================================================
// C16: best-N candidate buffer and tree search

#[derive(Serialize, Deserialize, Clone, Debug, Hash, PartialEq, Eq)]
pub struct BufCase {
    pub n: usize,
    pub keys: Vec<u8>,
}

fn sorted_buffer_run<const N: usize>(keys: &[u8]) -> Vec<(u8, usize)> {
    let mut b = SortedBuffer::<N, OrdBy<u8, usize>>::new();
    for (i, k) in keys.iter().enumerate() {
        b.add(OrdBy(*k, i));
    }
    b.iter().rev().map(|OrdBy(k, i)| (*k, *i)).collect()
}

fn c16_buf_check(c: &BufCase) -> Result<(bool, Vec<&'static str>), String> {
    let got = match c.n {
        1 => sorted_buffer_run::<1>(&c.keys),
        2 => sorted_buffer_run::<2>(&c.keys),
        3 => sorted_buffer_run::<3>(&c.keys),
        4 => sorted_buffer_run::<4>(&c.keys),
        5 => sorted_buffer_run::<5>(&c.keys),
        6 => sorted_buffer_run::<6>(&c.keys),
        7 => sorted_buffer_run::<7>(&c.keys),
        _ => sorted_buffer_run::<8>(&c.keys),
    };
    let n = c.n.clamp(1, 8);
    let mut want: Vec<u8> = c.keys.clone();
    want.sort_unstable_by(|a, b| b.cmp(a));
    want.truncate(n);
    let got_keys: Vec<u8> = got.iter().map(|g| g.0).collect();
    if got_keys != want {
        return Err(format!(
            "[C16] SortedBuffer<{n}> after inserting keys {:?}: iterating from the best yields keys {:?}, expected the {} highest keys best-first {:?}",
            c.keys,
            got_keys,
            want.len(),
            want
        ));
    }
    // every kept entry is a distinct inserted element with that key
    let mut seen = HashSet::new();
    for (k, i) in &got {
        if c.keys.get(*i) != Some(k) || !seen.insert(*i) {
            return Err(format!("[C16] SortedBuffer<{n}> returned an element that was not inserted: key {k} index {i}"));
        }
    }
    Ok((c.keys.len() > n, vec![]))
}

#[derive(Serialize, Deserialize, Clone, Debug, Hash, PartialEq, Eq)]
pub struct SearchCase {
    pub trees: usize,
    pub setup: Vec<Op>,
    pub n: usize,
    pub start: Frac,
    /// rating table: [class 0..3][free bucket 0..9] -> policy code
    pub table: Vec<u8>,
}

fn policy_of(code: u8) -> Policy {
    match code % 9 {
        0 => Policy::Invalid,
        1 => Policy::Match(0),
        2 => Policy::Match(1),
        3 => Policy::Match(2),
        4 => Policy::Match(7),
        5 => Policy::Match(u8::MAX),
        6 => Policy::Demote,
        7 => Policy::Steal,
        _ => Policy::Match(200),
    }
}

fn c16_search_check(c: &SearchCase) -> Result<(bool, Vec<&'static str>), String> {
    let cfg = Config {
        frames: c.trees * TREE_FRAMES,
        init: InitKind::FreeAll,
        classes: ClassKind::Movable([1, 1, 1]),
    };
    let (inst, _model) = match run_setup(&cfg, &c.setup) {
        Ok(x) => x,
        Err(v) => return Err(format!("[SETUP-{}] {}", v.tag, v.msg)),
    };
    let trees = &inst.alloc.trees;
    let table = c.table.clone();
    let rate = move |class: Class, free: usize| -> Policy {
        let bucket = (free * 9 / (TREE_FRAMES + 1)).min(8) + if free == TREE_FRAMES { 1 } else { 0 };
        policy_of(table[(class.0 as usize % 3) * 10 + bucket.min(9)])
    };
    let words: Vec<(u8, usize, bool)> = (0..trees.len())
        .map(|i| {
            let (cl, f, r) = trees.stats_at(TreeId(i));
            (cl.0, f, r)
        })
        .collect();
    let accessed = std::cell::RefCell::new(Vec::<usize>::new());
    let start = TreeId(pick(c.start, trees.len()));
    let access = |i: TreeId| -> llfree::Result<()> {
        accessed.borrow_mut().push(i.0);
        Err(Error::Memory)
    };
    let len = trees.len();
    let r = match c.n {
        1 => trees.search_best::<1, ()>(start, 0, len, &rate, access),
        2 => trees.search_best::<2, ()>(start, 0, len, &rate, access),
        3 => trees.search_best::<3, ()>(start, 0, len, &rate, access),
        _ => trees.search_best::<8, ()>(start, 0, len, &rate, access),
    };
    let n = match c.n {
        1 | 2 | 3 => c.n,
        _ => 8,
    };
    if r != Err(Error::Memory) {
        return Err(format!("[C16] search_best returned {r:?} although every access failed with Memory"));
    }
    let accessed = accessed.into_inner();
    // oracle from the observed tree words
    let key = |i: usize| (rate(Class(words[i].0), words[i].1), words[i].1 == TREE_FRAMES);
    let perfect: HashSet<usize> = (0..len)
        .filter(|&i| !words[i].2 && rate(Class(words[i].0), words[i].1) == Policy::Match(u8::MAX))
        .collect();
    let cand: Vec<usize> = (0..len)
        .filter(|&i| {
            !words[i].2
                && !matches!(
                    rate(Class(words[i].0), words[i].1),
                    Policy::Invalid | Policy::Match(u8::MAX)
                )
        })
        .collect();
    let split = accessed.iter().take_while(|i| perfect.contains(i)).count();
    let (first, rest) = accessed.split_at(split);
    let ctxs = format!("N={n} start={} words={words:?} accessed={accessed:?}", start.0);
    if first.len() != perfect.len() || first.iter().collect::<HashSet<_>>().len() != first.len() {
        return Err(format!("[C16] perfect matches {perfect:?} must each be tried exactly once during the scan; {ctxs}"));
    }
    if rest.iter().any(|i| !cand.contains(i)) || rest.iter().collect::<HashSet<_>>().len() != rest.len() {
        return Err(format!("[C16] a tree that is reserved, invalid, perfect or repeated was tried as fallback; {ctxs}"));
    }
    let mut want: Vec<_> = cand.iter().map(|&i| key(i)).collect();
    want.sort_by(|a, b| b.cmp(a));
    want.truncate(n);
    let got: Vec<_> = rest.iter().map(|&i| key(i)).collect();
    if got != want {
        return Err(format!(
            "[C16] fallback candidates tried with ratings {got:?}, expected the {} best-rated of {} candidates, best first: {want:?}; {ctxs}",
            want.len(),
            cand.len()
        ));
    }
    Ok((cand.len() > n, if cand.len() > n { vec!["more_candidates_than_capacity"] } else { vec![] }))
}

pub fn run_c16(ctx: &Ctx) -> Finish {
    let thorough = ctx.tier == "thorough";
    let mut ev = Evidence::new(
        "C16",
        &ctx.tier,
        ctx.seed,
        "exploration",
        "two generated domains. (1) SortedBuffer<N> for N=1..8: every insertion sequence of length <= 8 over keys 0..3 (exhaustive) plus proptest sequences of length <= 40 over keys 0..255; oracle: iterating from the best end yields exactly the min(N,m) greatest inserted keys in non-increasing order, each a distinct inserted element. (2) Trees::search_best::<N> (N in 1,2,3,8; full window, any start) on 4-24-tree allocators whose tree words (class, free, reserved) result from a generated history, under a generated rating table (class x free-bucket -> Match(n)/Demote/Steal/Invalid/perfect), with an access callback that records the tree and fails; oracle computed from the observed tree words: perfect matches tried exactly once during the scan, then exactly the min(N,m) best-rated unreserved candidates (rating = the (Policy, entirely-free) key the code itself sorts by, greatest = best), best first, ties in any order. Non-trivial = more candidates than capacity; distinct by case hash.",
    );
    // (1a) exhaustive
    let per_n: u64 = (0..=8u32).map(|l| 4u64.pow(l)).sum();
    let total = per_n * 8;
    let make = |i: u64| -> Option<BufCase> {
        let n = (i / per_n) as usize + 1;
        let mut r = i % per_n;
        let mut len = 0u32;
        while r >= 4u64.pow(len) {
            r -= 4u64.pow(len);
            len += 1;
        }
        let mut keys = Vec::new();
        for _ in 0..len {
            keys.push((r % 4) as u8);
            r /= 4;
        }
        Some(BufCase { n, keys })
    };
    let (stats, f) = run_indexed(total, make, |c| own_verdict("C16", c16_buf_check(c)));
    ev.stats.merge(stats);
    if let Some(f) = f {
        return ctx.fail(ev, "sortedbuf", &f.case, f.msg);
    }
    ev.stats.exhaustive.push(format!("SortedBuffer<N>, N=1..8: all {per_n} insertion sequences of length <= 8 over keys 0..3"));
    // (1b) generated
    let (stats, f) = run_proptest(
        ctx.seed,
        ctx.scale(if thorough { 2_000_000 } else { 100_000 }),
        || {
            (1usize..=8, prop::collection::vec(any::<u8>(), 0..40))
                .prop_map(|(n, keys)| BufCase { n, keys })
                .boxed()
        },
        |c| own_verdict("C16", c16_buf_check(c)),
    );
    ev.stats.merge(stats);
    if let Some(f) = f {
        return ctx.fail(ev, "sortedbuf", &f.case, f.msg);
    }
    // (2) search_best
    let w = Weights {
        get: 30,
        get_target: 25,
        put_held: 10,
        put_part: 4,
        put_arbitrary: 0,
        put_cover: 0,
        drain: 6,
        change: 10,
        exhaust: 1,
        free_subset: 2,
        offline_full_only: true,
        ..Weights::base(3)
    };
    let (stats, f) = run_proptest(
        ctx.seed ^ 0x16,
        ctx.scale(if thorough { 400_000 } else { 20_000 }),
        || {
            (
                4usize..=24,
                prop::collection::vec(op_strategy(&w), 0..40),
                prop_oneof![Just(1usize), Just(2), Just(3), Just(8)],
                any::<u16>(),
                prop::collection::vec(0u8..9, 30),
            )
                .prop_map(|(trees, setup, n, start, table)| SearchCase {
                    trees,
                    setup,
                    n,
                    start,
                    table,
                })
                .boxed()
        },
        |c| match c16_search_check(c) {
            Err(m) if m.starts_with("[SETUP-") => Verdict::Abort(m.chars().take(30).collect()),
            r => own_verdict("C16", r),
        },
    );
    ev.stats.merge(stats);
    if let Some(f) = f {
        return ctx.fail(ev, "search", &f.case, f.msg);
    }
    ctx.pass(ev)
}

pub fn replay_buf(c: &BufCase) -> Option<String> {
    c16_buf_check(c).err()
}
pub fn replay_search(c: &SearchCase) -> Option<String> {
    c16_search_check(c).err()
}
