//! Parallel drivers (proptest + bounded-exhaustive enumeration), evidence collection.

use std::collections::{BTreeMap, HashSet};
use std::hash::{Hash, Hasher};
use std::sync::Mutex;
use std::sync::atomic::{AtomicBool, AtomicU64, AtomicUsize, Ordering};
use std::time::Instant;

use proptest::strategy::{BoxedStrategy, Strategy};
use proptest::test_runner::{Config as PtConfig, RngSeed, TestCaseError, TestError, TestRunner};
use serde::Serialize;
use serde_json::{Value, json};

/// Verdict of one executed case, from the point of view of one property.
#[derive(Clone, Debug)]
pub enum Verdict {
    /// Property held. `nontrivial`: the case satisfies the property's rule.
    Pass {
        nontrivial: bool,
        classes: Vec<&'static str>,
    },
    /// Violation of this property
    Fail(String),
    /// A known finding of this property fired (tolerated, counted)
    Known(String),
    /// The case could not be judged (e.g. another property's defect got in the way)
    Abort(String),
}

pub fn hash_of<T: Hash>(t: &T) -> u64 {
    let mut h = std::collections::hash_map::DefaultHasher::new();
    t.hash(&mut h);
    h.finish()
}

#[derive(Default)]
pub struct Stats {
    pub evaluations: u64,
    pub nontrivial: HashSet<u64>,
    pub samples: Vec<Value>,
    pub nontrivial_samples: Vec<Value>,
    pub hist: BTreeMap<String, u64>,
    pub aborted: BTreeMap<String, u64>,
    pub known: BTreeMap<String, u64>,
    pub exhaustive: Vec<String>,
    pub notes: Vec<String>,
}

impl Stats {
    pub fn merge(&mut self, o: Stats) {
        self.evaluations += o.evaluations;
        self.nontrivial.extend(o.nontrivial);
        for s in o.samples {
            if self.samples.len() < 4 {
                self.samples.push(s);
            }
        }
        for s in o.nontrivial_samples {
            if self.nontrivial_samples.len() < 4 {
                self.nontrivial_samples.push(s);
            }
        }
        for (k, v) in o.hist {
            *self.hist.entry(k).or_insert(0) += v;
        }
        for (k, v) in o.aborted {
            *self.aborted.entry(k).or_insert(0) += v;
        }
        for (k, v) in o.known {
            *self.known.entry(k).or_insert(0) += v;
        }
        self.exhaustive.extend(o.exhaustive);
        self.notes.extend(o.notes);
    }

    fn record<C: Serialize + Hash>(&mut self, case: &C, v: &Verdict) {
        self.evaluations += 1;
        match v {
            Verdict::Pass {
                nontrivial,
                classes,
            } => {
                for c in classes {
                    *self.hist.entry((*c).to_string()).or_insert(0) += 1;
                }
                if *nontrivial {
                    if self.nontrivial.insert(hash_of(case)) && self.nontrivial_samples.len() < 3 {
                        self.nontrivial_samples
                            .push(serde_json::to_value(case).unwrap());
                    }
                } else if self.samples.len() < 1 {
                    self.samples.push(serde_json::to_value(case).unwrap());
                }
            }
            Verdict::Known(k) => {
                *self.known.entry(k.clone()).or_insert(0) += 1;
            }
            Verdict::Abort(k) => {
                *self.aborted.entry(k.clone()).or_insert(0) += 1;
            }
            Verdict::Fail(_) => {}
        }
    }
}

pub struct Failure<C> {
    pub case: C,
    pub msg: String,
}

pub fn threads() -> usize {
    std::env::var("VF_THREADS")
        .ok()
        .and_then(|s| s.parse().ok())
        .unwrap_or_else(|| {
            std::thread::available_parallelism()
                .map(|n| n.get())
                .unwrap_or(4)
                .min(16)
        })
}

/// Run `cases` generated cases, spread over worker threads, each with its own
/// seeded proptest runner; the first failure is shrunk by the worker that found it.
pub fn run_proptest<C, F, T>(
    seed: u64,
    cases: u64,
    strategy: F,
    test: T,
) -> (Stats, Option<Failure<C>>)
where
    C: Serialize + Hash + Clone + std::fmt::Debug + Send,
    F: Fn() -> BoxedStrategy<C> + Sync,
    T: Fn(&C) -> Verdict + Sync,
{
    let nthreads = threads().max(1);
    let per = cases.div_ceil(nthreads as u64);
    let stop = AtomicBool::new(false);
    let result: Mutex<(Stats, Option<Failure<C>>)> = Mutex::new((Stats::default(), None));
    std::thread::scope(|s| {
        for w in 0..nthreads {
            let (stop, result, strategy, test) = (&stop, &result, &strategy, &test);
            std::thread::Builder::new()
                .stack_size(16 << 20)
                .spawn_scoped(s, move || {
                    crate::panics::install_hook();
                    crate::crash::altstack();
                    let mut stats = Stats::default();
                    let failed = std::cell::Cell::new(false);
                    let cfg = PtConfig {
                        cases: per as u32,
                        failure_persistence: None,
                        rng_seed: RngSeed::Fixed(
                            seed.wrapping_mul(0x9E37_79B9_7F4A_7C15)
                                .wrapping_add(w as u64 + 1),
                        ),
                        max_shrink_iters: 4000,
                        verbose: 0,
                        ..PtConfig::default()
                    };
                    let mut runner = TestRunner::new(cfg);
                    let strat = strategy();
                    let stats_cell = std::cell::RefCell::new(&mut stats);
                    let r = runner.run(&strat, |case| {
                        if failed.get() {
                            // shrinking: only the verdict matters
                            return match test(&case) {
                                Verdict::Fail(m) => Err(TestCaseError::fail(m)),
                                _ => Ok(()),
                            };
                        }
                        if stop.load(Ordering::Relaxed) {
                            return Ok(());
                        }
                        let v = test(&case);
                        if let Verdict::Fail(m) = &v {
                            failed.set(true);
                            stop.store(true, Ordering::Relaxed);
                            return Err(TestCaseError::fail(m.clone()));
                        }
                        stats_cell.borrow_mut().record(&case, &v);
                        Ok(())
                    });
                    drop(stats_cell);
                    let fail = match r {
                        Ok(()) => None,
                        Err(TestError::Fail(reason, case)) => {
                            // re-run the shrunk case to get its own message
                            let msg = match test(&case) {
                                Verdict::Fail(m) => m,
                                _ => reason.message().to_string(),
                            };
                            Some(Failure { case, msg })
                        }
                        Err(TestError::Abort(r)) => {
                            stats.notes.push(format!("proptest abort: {}", r.message()));
                            None
                        }
                    };
                    let mut g = result.lock().unwrap();
                    g.0.merge(stats);
                    if let Some(f) = fail {
                        let smaller = match &g.1 {
                            None => true,
                            Some(old) => {
                                serde_json::to_string(&f.case).unwrap().len()
                                    < serde_json::to_string(&old.case).unwrap().len()
                            }
                        };
                        if smaller {
                            g.1 = Some(f);
                        }
                    }
                })
                .unwrap();
        }
    });
    result.into_inner().unwrap()
}

/// Run `total` cases produced by index (bounded-exhaustive spaces), in parallel.
/// Stops at the lowest failing index found (all smaller indices are still executed).
pub fn run_indexed<C, G, T>(total: u64, make: G, test: T) -> (Stats, Option<Failure<C>>)
where
    C: Serialize + Hash + Clone + Send,
    G: Fn(u64) -> Option<C> + Sync,
    T: Fn(&C) -> Verdict + Sync,
{
    let nthreads = threads().max(1);
    let next = AtomicU64::new(0);
    let fail_at = AtomicU64::new(u64::MAX);
    let result: Mutex<(Stats, Option<(u64, Failure<C>)>)> = Mutex::new((Stats::default(), None));
    const CHUNK: u64 = 64;
    std::thread::scope(|s| {
        for _ in 0..nthreads {
            let (next, fail_at, result, make, test) = (&next, &fail_at, &result, &make, &test);
            std::thread::Builder::new()
                .stack_size(16 << 20)
                .spawn_scoped(s, move || {
                    crate::panics::install_hook();
                    crate::crash::altstack();
                    let mut stats = Stats::default();
                    let mut fail: Option<(u64, Failure<C>)> = None;
                    loop {
                        let start = next.fetch_add(CHUNK, Ordering::Relaxed);
                        if start >= total || start > fail_at.load(Ordering::Relaxed) {
                            break;
                        }
                        for i in start..(start + CHUNK).min(total) {
                            if i > fail_at.load(Ordering::Relaxed) {
                                break;
                            }
                            let Some(case) = make(i) else { continue };
                            let v = test(&case);
                            if let Verdict::Fail(m) = v {
                                fail_at.fetch_min(i, Ordering::Relaxed);
                                if fail.as_ref().is_none_or(|(j, _)| i < *j) {
                                    fail = Some((i, Failure { case, msg: m }));
                                }
                                break;
                            }
                            stats.record(&case, &v);
                        }
                    }
                    let mut g = result.lock().unwrap();
                    g.0.merge(stats);
                    if let Some((i, f)) = fail
                        && g.1.as_ref().is_none_or(|(j, _)| i < *j)
                    {
                        g.1 = Some((i, f));
                    }
                })
                .unwrap();
        }
    });
    let (stats, f) = result.into_inner().unwrap();
    (stats, f.map(|(_, f)| f))
}

pub static PROGRESS: AtomicUsize = AtomicUsize::new(0);

/// Evidence part written by the binary for one (property, geometry) run.
pub struct Evidence {
    pub property: String,
    pub tier: String,
    pub seed: u64,
    pub level: &'static str,
    pub rule: String,
    pub assumptions: Vec<String>,
    pub start: Instant,
    pub stats: Stats,
    pub extra: BTreeMap<String, Value>,
}

impl Evidence {
    pub fn new(property: &str, tier: &str, seed: u64, level: &'static str, rule: &str) -> Self {
        Self {
            property: property.into(),
            tier: tier.into(),
            seed,
            level,
            rule: rule.into(),
            assumptions: Vec::new(),
            start: Instant::now(),
            stats: Stats::default(),
            extra: BTreeMap::new(),
        }
    }
    pub fn to_json(&self, violations: u64) -> Value {
        let mut samples = self.stats.nontrivial_samples.clone();
        samples.extend(self.stats.samples.iter().cloned());
        let mut coverage = json!({
            "evaluations": self.stats.evaluations,
            "distinct_nontrivial": self.stats.nontrivial.len(),
            "rule": self.rule,
            "samples": samples,
            "class_histogram": self.stats.hist,
            "aborted_foreign": self.stats.aborted,
            "known_findings_hit": self.stats.known,
            "exhaustive_subspaces": self.stats.exhaustive,
            "notes": self.stats.notes,
            "geometry": crate::geometry_name(),
        });
        for (k, v) in &self.extra {
            coverage[k] = v.clone();
        }
        json!({
            "property_id": self.property,
            "tier": self.tier,
            "seed": self.seed,
            "level": self.level,
            "coverage": coverage,
            "assumptions": self.assumptions,
            "wall_s": self.start.elapsed().as_secs_f64(),
            "violations": violations,
        })
    }
}
