//! Engine E1: sequential model-based interpreter.

use std::collections::{BTreeMap, HashMap};

use llfree::{
    Alloc, Class, Error, FrameId, HUGE_FRAMES, HUGE_ORDER, Init, Policy, Request, TREE_FRAMES,
    TREE_ORDER, TreeChange, TreeId, TreeMatch, TreeOperation,
};
use serde::{Deserialize, Serialize};

use crate::buf::Bufs;
use crate::cfg::{Config, Inst};
use crate::model::{Block, Model};
use crate::ops::*;
use crate::panics::{PanicInfo, guarded};

#[derive(Serialize, Deserialize, Clone, Debug, PartialEq, Eq, Hash)]
pub struct SeqCase {
    pub cfg: Config,
    pub ops: Vec<Op>,
}

/// Which oracles are evaluated. The model comparison itself (tag C02) always
/// runs, because every other oracle needs the model to be in sync.
#[derive(Clone, Debug, Default)]
pub struct Oracles {
    /// C04: accounting views vs model after every step
    pub accounting: bool,
    /// full scans (per frame, is_free over all blocks) after every step, not only on failures/end
    pub scan_every_step: bool,
    /// C13
    pub class: bool,
    /// C14
    pub class_stats: bool,
    /// C15
    pub offline: bool,
    /// C11: single-slot completeness on every base-order failure
    pub single_slot: bool,
    /// C10 is evaluated on DrainCheck ops whenever they occur
    /// C07 is evaluated whenever a Handoff op created a twin
    /// C09 mode: when an oracle other than PANIC fires, do not stop: keep issuing the remaining
    /// calls (their parameters stay in range, so they stay valid calls) and only watch for panics.
    /// A change that first bends another property and panics a few calls later is then still
    /// seen as what it is for C09.
    pub continue_for_panics: bool,
}

#[derive(Serialize, Deserialize, Clone, Debug)]
pub struct Violation {
    /// property tag of the oracle that fired (C02, C04, ... or PANIC)
    pub tag: String,
    pub step: usize,
    pub msg: String,
    pub panic: Option<PanicInfo>,
}

#[derive(Clone, Debug, Default)]
pub struct Outcome {
    pub violation: Option<Violation>,
    pub feats: BTreeMap<&'static str, u64>,
    pub steps_done: usize,
    pub calls: u64,
    pub trace: Vec<String>,
    /// resolved call script (for export to the Miri replayer)
    pub script: Option<Vec<String>>,
    /// first non-PANIC violation that was stepped over (continue_for_panics)
    pub stepped_over: Option<Violation>,
}

fn opt(v: Option<usize>) -> String {
    v.map_or("-".to_string(), |x| x.to_string())
}
fn res_code<T>(r: &llfree::Result<T>, ok: impl Fn(&T) -> String) -> String {
    match r {
        Ok(v) => ok(v),
        Err(Error::Memory) => "E1".into(),
        Err(Error::Argument) => "E3".into(),
        Err(Error::Initialization) => "E4".into(),
    }
}
impl Outcome {
    pub fn feat(&self, k: &str) -> u64 {
        self.feats.get(k).copied().unwrap_or(0)
    }
}

struct Run<'a> {
    cfg: &'a Config,
    or: &'a Oracles,
    inst: Inst,
    twin: Option<Inst>,
    model: Model,
    /// who allocated a held block: (class, slot)
    owner: HashMap<Block, (u8, Option<usize>)>,
    /// trees offlined while not entirely free, or changed in ways that make
    /// the fast counters meaningless (only when the generator allows that)
    dirty_offline: bool,
    out: Outcome,
    step: usize,
    verbose: bool,
    /// number of cross-slot frees since the last drain
    cross_since_drain: u64,
}

type Res<T> = Result<T, Violation>;

fn err_name(e: Error) -> &'static str {
    match e {
        Error::Memory => "Memory",
        Error::Argument => "Argument",
        Error::Initialization => "Initialization",
    }
}

/// Snapshot of all tree words as (class, free, reserved)
fn tree_words(inst: &Inst) -> Vec<(u8, usize, bool)> {
    (0..inst.alloc.trees.len())
        .map(|i| {
            let (c, f, r) = inst.alloc.trees.stats_at(TreeId(i));
            (inst.int(c.0), f, r)
        })
        .collect()
}

pub fn class_allowed(cfg: &Config, requested: u8, got: u8, order: usize) -> bool {
    if requested == got {
        return true;
    }
    let policy = cfg.classes.policy();
    // existential over the free counts the policy can be asked about
    let lo = 1usize << order;
    let mut f = lo;
    loop {
        if matches!(
            policy(Class(requested), Class(got), f),
            Policy::Match(_) | Policy::Steal
        ) {
            return true;
        }
        if f >= TREE_FRAMES {
            break;
        }
        // policies in the repository are step functions of free; sample densely at the thresholds
        f = (f + (f / 8).max(1)).min(TREE_FRAMES);
    }
    false
}

impl<'a> Run<'a> {
    fn feat(&mut self, k: &'static str) {
        *self.out.feats.entry(k).or_insert(0) += 1;
    }
    fn viol(&self, tag: &str, msg: String) -> Violation {
        Violation {
            tag: tag.to_string(),
            step: self.step,
            msg,
            panic: None,
        }
    }
    fn panic_viol(&self, what: &str, p: PanicInfo) -> Violation {
        Violation {
            tag: "PANIC".into(),
            step: self.step,
            msg: format!("{what} panicked: {} at {}:{}", p.msg, p.file, p.line),
            panic: Some(p),
        }
    }
    fn log(&mut self, s: impl FnOnce() -> String) {
        if self.verbose {
            let s = s();
            self.out.trace.push(format!("[{}] {}", self.step, s));
        }
    }

    fn slots(&self, class: u8) -> usize {
        self.cfg.classes.slots()[class as usize]
    }
    fn resolve_class(&self, c: u8) -> u8 {
        if self.or.single_slot {
            // C11: every request names the one class that owns the allocator's only slot
            return self.cfg.classes.slots().iter().position(|&n| n > 0).unwrap_or(0) as u8;
        }
        c % self.cfg.classes.classes() as u8
    }
    fn resolve_slot(&self, class: u8, s: &SlotSel) -> Option<usize> {
        match s {
            SlotSel::None => None,
            SlotSel::Slot(f) => {
                let n = self.slots(class);
                if n == 0 { None } else { Some(pick(*f, n)) }
            }
        }
    }
    fn resolve_order(&self, o: u8) -> usize {
        (o as usize).min(TREE_ORDER)
    }
    fn resolve_target(&self, t: &Target, order: usize) -> Option<usize> {
        let frames = self.cfg.frames;
        let len = 1usize << order;
        let n = frames >> order;
        if n == 0 {
            return None;
        }
        let any = |f: Frac| Some(pick(f, n) << order);
        match t {
            Target::None => None,
            Target::Free(f) => match self.model.find_free(order, pick(*f, frames)) {
                Some(b) => Some(b.frame),
                None => any(*f),
            },
            Target::Held(f) => {
                if self.model.held.is_empty() {
                    return any(*f);
                }
                let b = self.model.held[pick(*f, self.model.held.len())];
                let fr = b.frame / len * len;
                if fr + len <= frames { Some(fr) } else { any(*f) }
            }
            Target::Boundary(k) => match k % 4 {
                0 => Some((n - 1) << order),
                1 => {
                    let t = (frames - 1) / TREE_FRAMES * TREE_FRAMES;
                    if t + len <= frames { Some(t) } else { Some(0) }
                }
                2 => {
                    let h = (frames - 1) / HUGE_FRAMES * HUGE_FRAMES / len * len;
                    if h + len <= frames { Some(h) } else { Some((n - 1) << order) }
                }
                _ => Some(0),
            },
            Target::Any(f) => any(*f),
        }
    }

    // ---- raw calls (primary + twin) -------------------------------------------------

    fn call_get(
        &mut self,
        target: Option<usize>,
        order: usize,
        class: u8,
        slot: Option<usize>,
    ) -> Res<llfree::Result<(usize, u8)>> {
        self.out.calls += 1;
        let req = Request::new(order, Class(self.cfg.classes.ext(class)), slot);
        let a = &self.inst.alloc;
        let r = guarded(|| a.get(target.map(FrameId), req))
            .map_err(|p| self.panic_viol("get", p))?
            .map(|(f, c)| (f.0, self.inst.int(c.0)));
        if let Some(s) = &mut self.out.script {
            s.push(format!(
                "G {} {order} {class} {} = {}",
                opt(target),
                opt(slot),
                res_code(&r, |(f, c)| format!("{f} {c}"))
            ));
        }
        if let Some(t) = &self.twin {
            let r2 = guarded(|| t.alloc.get(target.map(FrameId), req))
                .map_err(|p| self.panic_viol("twin get", p))?
                .map(|(f, c)| (f.0, self.inst.int(c.0)));
            if r != r2 {
                return Err(self.viol(
                    "C07",
                    format!("get(target={target:?}, order={order}, class={class}, slot={slot:?}): original {r:?} twin {r2:?}"),
                ));
            }
        }
        Ok(r)
    }
    fn call_put(
        &mut self,
        b: Block,
        class: u8,
        slot: Option<usize>,
    ) -> Res<llfree::Result<()>> {
        self.out.calls += 1;
        let req = Request::new(b.order, Class(self.cfg.classes.ext(class)), slot);
        let a = &self.inst.alloc;
        let r = guarded(|| a.put(FrameId(b.frame), req)).map_err(|p| self.panic_viol("put", p))?;
        if let Some(s) = &mut self.out.script {
            s.push(format!(
                "P {} {} {class} {} = {}",
                b.frame,
                b.order,
                opt(slot),
                res_code(&r, |_| "OK".into())
            ));
        }
        if let Some(t) = &self.twin {
            let r2 = guarded(|| t.alloc.put(FrameId(b.frame), req))
                .map_err(|p| self.panic_viol("twin put", p))?;
            if r != r2 {
                return Err(self.viol(
                    "C07",
                    format!("put({b:?}, class={class}, slot={slot:?}): original {r:?} twin {r2:?}"),
                ));
            }
        }
        Ok(r)
    }
    fn call_drain(&mut self) -> Res<()> {
        self.out.calls += 1;
        let a = &self.inst.alloc;
        guarded(|| a.drain()).map_err(|p| self.panic_viol("drain", p))?;
        if let Some(s) = &mut self.out.script {
            s.push("D".into());
        }
        if let Some(t) = &self.twin {
            guarded(|| t.alloc.drain()).map_err(|p| self.panic_viol("twin drain", p))?;
        }
        Ok(())
    }
    fn call_change(&mut self, m: TreeMatch, c: TreeChange) -> Res<llfree::Result<()>> {
        self.out.calls += 1;
        let a = &self.inst.alloc;
        let (m2, c2) = (m.clone(), c.clone());
        let r = guarded(|| a.change_tree(m, c)).map_err(|p| self.panic_viol("change_tree", p))?;
        if let Some(s) = &mut self.out.script {
            s.push(format!(
                "C {} {} {} {} {} = {}",
                opt(m2.id.map(|i| i.0)),
                opt(m2.class.map(|c| c.0 as usize)),
                m2.free,
                opt(c2.class.map(|c| c.0 as usize)),
                match c2.operation {
                    None => "N",
                    Some(TreeOperation::Online) => "O",
                    Some(TreeOperation::Offline) => "F",
                },
                res_code(&r, |_| "OK".into())
            ));
        }
        if let Some(t) = &self.twin {
            let r2 = guarded(|| t.alloc.change_tree(m2, c2))
                .map_err(|p| self.panic_viol("twin change_tree", p))?;
            if r != r2 {
                return Err(self.viol("C07", format!("change_tree: original {r:?} twin {r2:?}")));
            }
        }
        Ok(r)
    }

    // ---- state comparison -----------------------------------------------------------

    /// Per-frame scan of the allocation status against the model (C02's "nothing changed").
    fn scan_frames(&self, why: &str) -> Res<()> {
        let a = &self.inst.alloc;
        let m = &self.model;
        let r = guarded(|| {
            for f in 0..m.frames {
                let free = a.stats_at(FrameId(f), 0).free_frames;
                if (free == 1) == m.alloc[f] || free > 1 {
                    return Some((f, free));
                }
            }
            None
        })
        .map_err(|p| self.panic_viol("stats_at", p))?;
        if let Some((f, free)) = r {
            return Err(self.viol(
                "C02",
                format!(
                    "{why}: frame {f} reported free_frames={free} but model says allocated={}",
                    m.alloc[f]
                ),
            ));
        }
        // frames beyond the managed range inside the last huge frame must never be free
        let end = m.frames.next_multiple_of(HUGE_FRAMES);
        let tail = guarded(|| {
            (m.frames..end).find(|&f| a.stats_at(FrameId(f), 0).free_frames != 0)
        })
        .map_err(|p| self.panic_viol("stats_at(tail)", p))?;
        if let Some(f) = tail {
            return Err(self.viol(
                "C06",
                format!("{why}: unmanaged frame {f} (>= {}) reported free", m.frames),
            ));
        }
        Ok(())
    }

    /// C04: all accounting views against the model.
    fn check_accounting(&mut self, full: bool) -> Res<()> {
        let m = &self.model;
        let a = &self.inst.alloc;
        let msg = guarded(|| -> Option<String> {
            let s = a.stats();
            if s.free_frames != m.free_frames() {
                return Some(format!(
                    "stats().free_frames={} model={}",
                    s.free_frames,
                    m.free_frames()
                ));
            }
            if s.free_huge != m.free_huge() {
                return Some(format!(
                    "stats().free_huge={} model={}",
                    s.free_huge,
                    m.free_huge()
                ));
            }
            if s.free_trees != m.free_trees() {
                return Some(format!(
                    "stats().free_trees={} model={}",
                    s.free_trees,
                    m.free_trees()
                ));
            }
            for h in 0..m.whole.len() {
                let s = a.stats_at(FrameId(h * HUGE_FRAMES), HUGE_ORDER);
                if s.free_frames != m.huge_free(h)
                    || s.free_huge != m.huge_entirely_free(h) as usize
                {
                    return Some(format!(
                        "stats_at(huge {h}) = {s:?} model free={} entirely={}",
                        m.huge_free(h),
                        m.huge_entirely_free(h)
                    ));
                }
            }
            for t in 0..m.trees() {
                let s = a.stats_at(FrameId(t * TREE_FRAMES), TREE_ORDER);
                let hf = (t * llfree::TREE_HUGE..((t + 1) * llfree::TREE_HUGE).min(m.whole.len()))
                    .filter(|&h| m.huge_entirely_free(h))
                    .count();
                if s.free_frames != m.tree_free(t)
                    || s.free_huge != hf
                    // with TREE_HUGE == 1 the tree-order query is the huge-order query
                    // (one match arm serves both) and does not fill in free_trees
                    || (TREE_ORDER != HUGE_ORDER
                        && s.free_trees != (m.tree_free(t) == TREE_FRAMES) as usize)
                {
                    return Some(format!(
                        "stats_at(tree {t}) = {s:?} model free={} huge={hf}",
                        m.tree_free(t)
                    ));
                }
            }
            if full {
                for f in 0..m.frames {
                    let free = a.stats_at(FrameId(f), 0).free_frames;
                    if (free == 1) == m.alloc[f] || free > 1 {
                        return Some(format!(
                            "stats_at(frame {f}).free_frames={free} model allocated={}",
                            m.alloc[f]
                        ));
                    }
                }
                // is_free over every aligned block of every order
                for order in 0..=TREE_ORDER {
                    let len = 1usize << order;
                    for i in 0..(m.frames >> order) {
                        let b = Block::new(i * len, order);
                        let got = a.lower.is_free(FrameId(b.frame), order);
                        if got != m.block_free(b) {
                            return Some(format!(
                                "is_free({b:?})={got} model={}",
                                m.block_free(b)
                            ));
                        }
                    }
                }
            }
            None
        })
        .map_err(|p| self.panic_viol("statistics query", p))?;
        if let Some(msg) = msg {
            return Err(self.viol("C04", msg));
        }
        if !self.dirty_offline {
            let offline_frames: usize = m.offline.iter().map(|&t| m.tree_free(t)).sum();
            let fast = guarded(|| a.tree_stats().free_frames)
                .map_err(|p| self.panic_viol("tree_stats", p))?;
            let exact = m.free_frames();
            if fast + offline_frames != exact {
                return Err(self.viol(
                    "C04",
                    format!(
                        "tree_stats().free_frames={fast} but exact={exact} offline_frames={offline_frames}"
                    ),
                ));
            }
            if m.offline.is_empty() {
                if let Err(p) = guarded(|| a.validate()) {
                    let mut v = self.viol(
                        "C04",
                        format!("validate() failed: {} at {}:{}", p.msg, p.file, p.line),
                    );
                    v.panic = Some(p);
                    return Err(v);
                }
            }
        }
        Ok(())
    }

    /// C14: per-class statistics
    fn check_class_stats(&mut self) -> Res<()> {
        if self.dirty_offline || !self.model.offline.is_empty() {
            // an offline tree counts as fully allocated in its class; the sums below still hold
        }
        let a = &self.inst.alloc;
        let ts = guarded(|| a.tree_stats()).map_err(|p| self.panic_viol("tree_stats", p))?;
        let sum_free: usize = ts.classes.iter().map(|c| c.free_frames).sum();
        let sum_all: usize = ts
            .classes
            .iter()
            .map(|c| c.free_frames + c.alloc_frames)
            .sum();
        let expect = self.model.trees() * TREE_FRAMES;
        if sum_all != expect {
            return Err(self.viol(
                "C14",
                format!(
                    "sum over classes of free+alloc = {sum_all}, expected trees*TREE_FRAMES = {expect}; classes={:?}",
                    &ts.classes[..self.cfg.classes.classes()]
                ),
            ));
        }
        if sum_free != ts.free_frames {
            return Err(self.viol(
                "C14",
                format!(
                    "sum of per-class free = {sum_free} but tree_stats().free_frames = {}",
                    ts.free_frames
                ),
            ));
        }
        let reserved_with_free = tree_words(&self.inst).iter().any(|w| w.2);
        if reserved_with_free {
            self.feat("c14_state_with_reservation");
        }
        Ok(())
    }

    fn after_step(&mut self, failed_call: bool, last: bool) -> Res<()> {
        if failed_call || last || self.or.scan_every_step {
            self.scan_frames(if failed_call {
                "after failing call"
            } else {
                "state scan"
            })?;
        }
        if self.or.accounting {
            let full = failed_call || last || self.or.scan_every_step;
            self.check_accounting(full)?;
        }
        if self.or.class_stats {
            self.check_class_stats()?;
        }
        Ok(())
    }

    // ---- checked operations ---------------------------------------------------------

    /// One allocation, checked against the model. Returns Ok(Some(block)) on success.
    fn do_get(
        &mut self,
        target: Option<usize>,
        order: usize,
        class: u8,
        slot: Option<usize>,
    ) -> Res<llfree::Result<Block>> {
        let pre_words = tree_words(&self.inst);
        let r = self.call_get(target, order, class, slot)?;
        self.log(|| format!("get(target={target:?}, order={order}, class={class}, slot={slot:?}) -> {r:?}"));
        match r {
            Ok((frame, got_class)) => {
                let b = Block::new(frame, order);
                if frame % b.len() != 0 || b.end() > self.model.frames {
                    return Err(self.viol(
                        "C02",
                        format!("get returned {b:?}: misaligned or out of range (frames={})", self.model.frames),
                    ));
                }
                if !self.model.block_free(b) {
                    let first = b.range().find(|&f| self.model.alloc[f]).unwrap();
                    return Err(self.viol(
                        "C02",
                        format!("get returned {b:?} but frame {first} is already allocated"),
                    ));
                }
                if let Some(t) = target
                    && t != frame
                {
                    return Err(self.viol(
                        "C02",
                        format!("targeted get at {t} returned frame {frame}"),
                    ));
                }
                if self.model.offline.contains(&b.tree()) {
                    return Err(self.viol(
                        "C15",
                        format!("get returned {b:?} inside offline tree {}", b.tree()),
                    ));
                }
                if self.or.class && !class_allowed(self.cfg, class, got_class, order) {
                    return Err(self.viol(
                        "C13",
                        format!("get(order={order}, class={class}) reported class {got_class}, which the policy rates neither match nor steal"),
                    ));
                }
                if got_class != class {
                    self.feat("class_differs");
                }
                if target.is_some() {
                    self.feat("targeted_ok");
                }
                if !self.model.offline.is_empty() {
                    self.feat("alloc_while_offline");
                }
                self.model.apply_get(b);
                self.owner.insert(b, (class, slot));
                // fallback detection: reservation set changed
                let post = tree_words(&self.inst);
                if pre_words
                    .iter()
                    .zip(post.iter())
                    .any(|(a, b)| a.2 != b.2 || a.0 != b.0)
                {
                    self.feat("reservation_changed");
                    if self.cross_since_drain > 0 {
                        self.feat("fallback_after_cross_free");
                    }
                }
                Ok(Ok(b))
            }
            Err(e) => {
                self.feat("failing_call");
                if target.is_some() {
                    self.feat("targeted_fail");
                }
                if !self.model.offline.is_empty() {
                    self.feat("alloc_fail_while_offline");
                }
                if self.or.single_slot
                    && order == 0
                    && target.is_none()
                    && e == Error::Memory
                    && self.model.offline.is_empty()
                {
                    let free = self.model.free_frames();
                    if free > 0 {
                        return Err(self.viol(
                            "C11",
                            format!("base-order get(class={class}, slot={slot:?}) failed with Memory although {free} frame(s) are free (lowest: {:?})",
                                self.model.alloc.iter().position(|a| !*a)),
                        ));
                    }
                }
                Ok(Err(e))
            }
        }
    }

    fn do_put(&mut self, b: Block, class: u8, slot: Option<usize>) -> Res<bool> {
        let expect = self.model.can_put(b);
        let was_whole_partial =
            b.order < HUGE_ORDER && self.model.whole[b.frame / HUGE_FRAMES] && expect;
        let any_alloc = b.range().any(|f| self.model.alloc[f]);
        let r = self.call_put(b, class, slot)?;
        self.log(|| format!("put({b:?}, class={class}, slot={slot:?}) -> {r:?} (model expects ok={expect})"));
        match (r, expect) {
            (Ok(()), true) => {
                if was_whole_partial {
                    self.feat("partial_free_of_whole");
                }
                if let Some(&(oc, os)) = self.owner.get(&b)
                    && (os != slot || oc != class)
                {
                    self.feat("cross_slot_free");
                    self.cross_since_drain += 1;
                }
                if slot.is_none() {
                    self.feat("free_without_slot");
                }
                self.owner.remove(&b);
                self.model.apply_put(b);
                Ok(false)
            }
            (Err(_), false) => {
                self.feat("failing_call");
                if any_alloc {
                    self.feat("failing_free_of_partly_held");
                }
                Ok(true)
            }
            (Ok(()), false) => Err(self.viol(
                "C02",
                format!("put({b:?}) succeeded although the model forbids it (allocated frames in block: {}, whole markers: {:?})",
                    b.range().filter(|&f| self.model.alloc[f]).count(),
                    (b.frame / HUGE_FRAMES..=(b.end() - 1) / HUGE_FRAMES).map(|h| self.model.whole[h]).collect::<Vec<_>>()),
            )),
            (Err(e), true) => Err(self.viol(
                "C02",
                format!("put({b:?}) failed with {} although every frame is allocated", err_name(e)),
            )),
        }
    }

    fn resolve_put(&self, what: &PutWhat) -> Option<Block> {
        let frames = self.cfg.frames;
        let held = &self.model.held;
        match what {
            PutWhat::Held(f) => {
                if held.is_empty() {
                    None
                } else {
                    Some(held[pick(*f, held.len())])
                }
            }
            PutWhat::Part { held: h, down, part } => {
                if held.is_empty() {
                    return None;
                }
                let b = held[pick(*h, held.len())];
                let j = b.order.saturating_sub(*down as usize);
                let parts = 1usize << (b.order - j);
                let idx = pick(*part, parts);
                Some(Block::new(b.frame + (idx << j), j))
            }
            PutWhat::Arbitrary { order, pos } => {
                let order = self.resolve_order(*order);
                let n = frames >> order;
                if n == 0 {
                    None
                } else {
                    Some(Block::new(pick(*pos, n) << order, order))
                }
            }
            PutWhat::Cover { held: h, up } => {
                if held.is_empty() {
                    return None;
                }
                let b = held[pick(*h, held.len())];
                let order = (b.order + *up as usize).min(TREE_ORDER);
                let len = 1usize << order;
                let fr = b.frame / len * len;
                if fr + len <= frames {
                    Some(Block::new(fr, order))
                } else {
                    None
                }
            }
        }
    }

    fn do_change(
        &mut self,
        sel: &TreeSel,
        class: Option<u8>,
        min_free: MinFree,
        set_class: Option<u8>,
        op: TreeOp,
    ) -> Res<bool> {
        let trees = self.model.trees();
        let id = match sel {
            TreeSel::Id(f) => {
                if trees == 0 {
                    Some(0)
                } else {
                    Some(pick(*f, trees))
                }
            }
            TreeSel::Beyond(n) => Some(trees + *n as usize),
            TreeSel::Match => None,
        };
        let class = class.map(|c| self.resolve_class(c));
        let set_class = set_class.map(|c| self.resolve_class(c));
        let min_free = match min_free {
            MinFree::Zero => 0,
            MinFree::One => 1,
            MinFree::Huge => HUGE_FRAMES,
            MinFree::Tree => TREE_FRAMES,
            MinFree::Frac(f) => pick(f, TREE_FRAMES + 1),
        };
        let pre = tree_words(&self.inst);
        let matches = |i: usize| -> bool {
            let Some(&(c, f, r)) = pre.get(i) else {
                return false;
            };
            !r && class.is_none_or(|k| k == c)
                && f >= min_free
                && (op != TreeOp::Online || f == 0)
        };
        let candidates: Vec<usize> = match id {
            Some(i) => {
                if matches(i) {
                    vec![i]
                } else {
                    vec![]
                }
            }
            None => (0..trees).filter(|&i| matches(i)).collect(),
        };
        let m = TreeMatch {
            id: id.map(TreeId),
            class: class.map(|c| Class(self.cfg.classes.ext(c))),
            free: min_free,
        };
        let c = TreeChange {
            class: set_class.map(|c| Class(self.cfg.classes.ext(c))),
            operation: match op {
                TreeOp::None => None,
                TreeOp::Online => Some(TreeOperation::Online),
                TreeOp::Offline => Some(TreeOperation::Offline),
            },
        };
        let r = self.call_change(m, c)?;
        let post = tree_words(&self.inst);
        self.log(|| {
            format!(
                "change_tree(id={id:?}, class={class:?}, min_free={min_free}, set_class={set_class:?}, op={op:?}) -> {r:?} candidates={candidates:?} pre={pre:?} post={post:?}"
            )
        });
        let changed: Vec<usize> = (0..trees).filter(|&i| pre[i] != post[i]).collect();
        match r {
            Ok(()) => {
                if candidates.is_empty() {
                    return Err(self.viol(
                        "C15",
                        format!("change_tree succeeded although no tree matches (id={id:?}, class={class:?}, min_free={min_free}, op={op:?}); words before: {pre:?}"),
                    ));
                }
                if changed.len() > 1 {
                    return Err(self.viol(
                        "C15",
                        format!("change_tree changed several trees: {changed:?}"),
                    ));
                }
                // which tree took the change
                let expected_word = |i: usize| {
                    let (c, f, _r) = pre[i];
                    let nc = set_class.unwrap_or(c);
                    let nf = match op {
                        TreeOp::None => f,
                        TreeOp::Offline => 0,
                        TreeOp::Online => self.model.tree_free(i),
                    };
                    (nc, nf, false)
                };
                let t = if let Some(&t) = changed.first() {
                    if !candidates.contains(&t) {
                        return Err(self.viol(
                            "C15",
                            format!("change_tree changed tree {t} which does not match (reserved or wrong class/free): before {:?}", pre[t]),
                        ));
                    }
                    t
                } else {
                    // no visible change: some candidate must already equal its expected word
                    match candidates.iter().find(|&&i| expected_word(i) == pre[i]) {
                        Some(&t) => t,
                        None => {
                            return Err(self.viol(
                                "C15",
                                format!("change_tree returned Ok but no tree word changed; candidates={candidates:?} pre={pre:?}"),
                            ));
                        }
                    }
                };
                if post[t] != expected_word(t) {
                    return Err(self.viol(
                        "C15",
                        format!("tree {t} after change is {:?}, expected {:?}", post[t], expected_word(t)),
                    ));
                }
                match op {
                    TreeOp::Offline => {
                        if self.model.tree_free(t) == TREE_FRAMES && pre[t].1 == TREE_FRAMES {
                            self.model.offline.insert(t);
                            self.feat("offline_ok");
                        } else if pre[t].1 != 0 {
                            // partly used tree taken offline: accounting is undefined from here on
                            self.dirty_offline = true;
                            self.feat("offline_partial");
                        }
                    }
                    TreeOp::Online => {
                        if self.model.offline.remove(&t) {
                            self.feat("online_ok");
                            if self.or.offline {
                                // the whole tree must be allocatable again: exact accounting + class
                                let want = (set_class.unwrap_or(pre[t].0), TREE_FRAMES, false);
                                if post[t] != want {
                                    return Err(self.viol(
                                        "C15",
                                        format!("online of tree {t}: word {:?}, expected {want:?}", post[t]),
                                    ));
                                }
                            }
                        }
                        if self.dirty_offline {
                            // conservative: stays dirty
                        }
                    }
                    TreeOp::None => {}
                }
                Ok(false)
            }
            Err(_) => {
                self.feat("failing_call");
                if !changed.is_empty() {
                    return Err(self.viol(
                        "C15",
                        format!("failing change_tree modified trees {changed:?}"),
                    ));
                }
                if !candidates.is_empty() {
                    // "Taking an unreserved, entirely free tree offline succeeds" and, more
                    // generally, a matching unreserved tree must be found.
                    return Err(self.viol(
                        "C15",
                        format!("change_tree failed although trees {candidates:?} match (id={id:?}, class={class:?}, min_free={min_free}, op={op:?}); words: {pre:?}"),
                    ));
                }
                Ok(true)
            }
        }
    }

    fn do_handoff(&mut self) -> Res<()> {
        let bufs = Bufs::copy_of(&self.inst.bufs);
        let frames = self.cfg.frames;
        let classes = &self.cfg.classes;
        let words = tree_words(&self.inst);
        if words.iter().any(|w| w.2) {
            self.feat("handoff_with_reservation");
        }
        if (0..self.model.whole.len()).any(|h| {
            let f = self.model.huge_free(h);
            f > 0 && f < HUGE_FRAMES
        }) {
            self.feat("handoff_with_partial_huge");
        }
        let twin = guarded(|| Inst::build_with(frames, Init::None, classes, Some(bufs)))
            .map_err(|p| self.panic_viol("new(Init::None)", p))?;
        match twin {
            Ok(t) => {
                self.twin = Some(t);
                self.feat("handoff");
                self.compare_twin()
            }
            Err(e) => Err(self.viol(
                "C07",
                format!("new(Init::None) over copied metadata failed: {}", err_name(e)),
            )),
        }
    }

    /// C07: statistics of original and twin are identical
    fn compare_twin(&mut self) -> Res<()> {
        let Some(t) = &self.twin else { return Ok(()) };
        let a = &self.inst.alloc;
        let b = &t.alloc;
        let frames = self.cfg.frames;
        let r = guarded(|| -> Option<String> {
            let (s1, s2) = (a.stats(), b.stats());
            if format!("{s1:?}") != format!("{s2:?}") {
                return Some(format!("stats differ: {s1:?} vs {s2:?}"));
            }
            let (s1, s2) = (a.tree_stats(), b.tree_stats());
            if format!("{s1:?}") != format!("{s2:?}") {
                return Some(format!("tree_stats differ: {s1:?} vs {s2:?}"));
            }
            for i in 0..a.trees.len() {
                let (w1, w2) = (a.trees.stats_at(TreeId(i)), b.trees.stats_at(TreeId(i)));
                if format!("{w1:?}") != format!("{w2:?}") {
                    return Some(format!("tree {i} differs: {w1:?} vs {w2:?}"));
                }
            }
            for f in 0..frames {
                if a.stats_at(FrameId(f), 0).free_frames != b.stats_at(FrameId(f), 0).free_frames {
                    return Some(format!("frame {f} differs"));
                }
            }
            None
        })
        .map_err(|p| self.panic_viol("twin statistics", p))?;
        match r {
            Some(m) => Err(self.viol("C07", m)),
            None => Ok(()),
        }
    }

    fn exec(&mut self, op: &Op) -> Res<bool> {
        match op {
            Op::Get {
                order,
                class,
                slot,
                target,
            } => {
                let class = self.resolve_class(*class);
                let order = self.resolve_order(*order);
                let slot = self.resolve_slot(class, slot);
                let target = self.resolve_target(target, order);
                if target.is_some() {
                    self.feat("targeted_get");
                }
                Ok(self.do_get(target, order, class, slot)?.is_err())
            }
            Op::Put { what, class, slot } => {
                let class = self.resolve_class(*class);
                let slot = self.resolve_slot(class, slot);
                match self.resolve_put(what) {
                    Some(b) => self.do_put(b, class, slot),
                    None => {
                        self.feat("skipped_op");
                        Ok(false)
                    }
                }
            }
            Op::Drain => {
                self.call_drain()?;
                self.log(|| "drain()".into());
                if self.cross_since_drain > 0 {
                    self.feat("drain_after_cross_free");
                }
                self.cross_since_drain = 0;
                self.feat("drain");
                Ok(false)
            }
            Op::Change {
                sel,
                class,
                min_free,
                set_class,
                op,
            } => self.do_change(sel, *class, *min_free, *set_class, *op),
            Op::Exhaust { order, class, slot } => {
                let class = self.resolve_class(*class);
                let order = self.resolve_order(*order);
                let slot = self.resolve_slot(class, slot);
                let max = (self.cfg.frames >> order) + 2;
                let mut n = 0;
                for _ in 0..max {
                    if self.do_get(None, order, class, slot)?.is_err() {
                        break;
                    }
                    n += 1;
                }
                if n >= max {
                    return Err(self.viol(
                        "C02",
                        format!("exhaust: more than {max} successful allocations of order {order}"),
                    ));
                }
                self.feat("exhaust");
                Ok(true)
            }
            Op::FreeSubset { mask, class, slot } => {
                let class = self.resolve_class(*class);
                let slot = self.resolve_slot(class, slot);
                let held = self.model.held.to_vec();
                for (i, b) in held.into_iter().enumerate() {
                    if mask >> (i % 32) & 1 == 1 && self.model.held.contains(&b) {
                        self.do_put(b, class, slot)?;
                    }
                }
                Ok(false)
            }
            Op::FreeTree {
                reserved,
                tree,
                class,
                slot,
            } => {
                let class = self.resolve_class(*class);
                let slot = self.resolve_slot(class, slot);
                let trees = self.model.trees();
                if trees == 0 {
                    return Ok(false);
                }
                let words = tree_words(&self.inst);
                let t = match (*reserved, words.iter().position(|w| w.2)) {
                    (true, Some(t)) => {
                        self.feat("free_reserved_tree");
                        t
                    }
                    _ => pick(*tree, trees),
                };
                let held: Vec<Block> = self.model.held.iter().filter(|b| b.tree() == t).copied().collect();
                for b in held {
                    if self.model.held.contains(&b) {
                        self.do_put(b, class, slot)?;
                    }
                }
                Ok(false)
            }
            Op::DrainCheck {
                class,
                slot,
                order,
                target,
            } => {
                let class = self.resolve_class(*class);
                let slot = self.resolve_slot(class, slot);
                self.call_drain()?;
                let had_cross = self.cross_since_drain > 0;
                self.cross_since_drain = 0;
                let order = self.resolve_order(*order);
                let target = self.resolve_target(target, order);
                let order = if target.is_none() { 0 } else { order };
                let free_outside = self.model.free_outside_offline();
                let expect_target = target.map(|t| {
                    let b = Block::new(t, order);
                    self.model.block_free(b) && !self.model.offline.contains(&b.tree())
                });
                let r = self.do_get(target, order, class, slot)?;
                self.feat("drain_check");
                if free_outside > 0 && (had_cross || self.feat_get("partial_free_of_whole") > 0) {
                    self.feat("drain_check_nontrivial");
                }
                if self.cfg.classes.has_invalid() || self.dirty_offline {
                    return Ok(r.is_err());
                }
                match (target, &r) {
                    (None, Err(Error::Memory)) if free_outside > 0 => Err(self.viol(
                        "C10",
                        format!("after drain, base-order get(class={class}, slot={slot:?}) failed with Memory although {free_outside} frames outside offline trees are free"),
                    )),
                    (Some(t), Err(e)) if expect_target == Some(true) => Err(self.viol(
                        "C10",
                        format!("after drain, targeted get({t}, order={order}, class={class}, slot={slot:?}) failed with {} although the block is free and online", err_name(*e)),
                    )),
                    (Some(t), Ok(_)) if expect_target == Some(false) => Err(self.viol(
                        "C10",
                        format!("after drain, targeted get({t}, order={order}) succeeded although the block is not free / is offline"),
                    )),
                    _ => Ok(r.is_err()),
                }
            }
            Op::Handoff => {
                self.do_handoff()?;
                Ok(false)
            }
            Op::Validate => {
                if self.model.offline.is_empty() && !self.dirty_offline {
                    let a = &self.inst.alloc;
                    if let Err(p) = guarded(|| a.validate()) {
                        let mut v = self.viol(
                            "C04",
                            format!("validate() failed: {} at {}:{}", p.msg, p.file, p.line),
                        );
                        v.panic = Some(p);
                        return Err(v);
                    }
                }
                Ok(false)
            }
        }
    }
    fn feat_get(&self, k: &str) -> u64 {
        self.out.feat(k)
    }
}

thread_local! {
    /// record resolved call scripts (Miri export)
    pub static RECORD: std::cell::Cell<bool> = const { std::cell::Cell::new(false) };
}

/// Run a case and return its resolved call script: header line + one line per API call.
pub fn script_of(case: &SeqCase) -> Option<Vec<String>> {
    RECORD.with(|r| r.set(true));
    let out = run_seq(case, &Oracles::default(), false);
    RECORD.with(|r| r.set(false));
    if out.violation.is_some() {
        return None;
    }
    let (kind, slots) = match &case.cfg.classes {
        crate::cfg::ClassKind::Simple(s) => ("simple", s.to_vec()),
        crate::cfg::ClassKind::Movable(s) => ("movable", s.to_vec()),
        crate::cfg::ClassKind::Zeroed(s) => ("zeroed", s.to_vec()),
        crate::cfg::ClassKind::Single(s) => ("single", vec![*s]),
        crate::cfg::ClassKind::WithInvalid(_) | crate::cfg::ClassKind::SimpleIds(..) | crate::cfg::ClassKind::MovableIds(..) => return None,
    };
    let mut lines = vec![format!(
        "CFG {} {} {kind} {}",
        case.cfg.frames,
        match case.cfg.init {
            crate::cfg::InitKind::FreeAll => "free",
            crate::cfg::InitKind::AllocAll => "alloc",
        },
        slots.iter().map(|s| s.to_string()).collect::<Vec<_>>().join(" ")
    )];
    lines.extend(out.script?);
    Some(lines)
}

/// Run a sequential prefix (setup of a concurrent case) and hand out allocator and model.
pub fn run_setup(cfg: &Config, ops: &[Op]) -> Result<(Inst, Model), Violation> {
    let or = Oracles::default();
    let build_viol = |tag: &str, msg: String, panic| Violation {
        tag: tag.into(),
        step: 0,
        msg,
        panic,
    };
    let inst = match guarded(|| Inst::build(cfg)) {
        Ok(Ok(i)) => i,
        Ok(Err(e)) => return Err(build_viol("C06", format!("construction failed: {}", err_name(e)), None)),
        Err(p) => return Err(build_viol("PANIC", format!("new panicked: {}", p.msg), Some(p))),
    };
    let mut run = Run {
        cfg,
        or: &or,
        inst,
        twin: None,
        model: Model::new(cfg),
        owner: HashMap::new(),
        dirty_offline: false,
        out: Outcome {
            script: RECORD.with(|r| r.get()).then(Vec::new),
            ..Default::default()
        },
        step: 0,
        verbose: false,
        cross_since_drain: 0,
    };
    for (i, op) in ops.iter().enumerate() {
        run.step = i + 1;
        run.exec(op)?;
    }
    Ok((run.inst, run.model))
}

/// Run one sequential case.
pub fn run_seq(case: &SeqCase, or: &Oracles, verbose: bool) -> Outcome {
    let cfg = &case.cfg;
    let inst = match guarded(|| Inst::build(cfg)) {
        Ok(Ok(i)) => i,
        Ok(Err(e)) => {
            return Outcome {
                violation: Some(Violation {
                    tag: "C06".into(),
                    step: 0,
                    msg: format!("construction failed with {}", err_name(e)),
                    panic: None,
                }),
                ..Default::default()
            };
        }
        Err(p) => {
            return Outcome {
                violation: Some(Violation {
                    tag: "PANIC".into(),
                    step: 0,
                    msg: format!("new panicked: {} at {}:{}", p.msg, p.file, p.line),
                    panic: Some(p),
                }),
                ..Default::default()
            };
        }
    };
    let mut run = Run {
        cfg,
        or,
        inst,
        twin: None,
        model: Model::new(cfg),
        owner: HashMap::new(),
        dirty_offline: false,
        out: Outcome {
            script: RECORD.with(|r| r.get()).then(Vec::new),
            ..Default::default()
        },
        step: 0,
        verbose,
        cross_since_drain: 0,
    };
    // initial state must agree as well
    if let Err(v) = run.after_step(false, case.ops.is_empty()) {
        run.out.violation = Some(v);
        return run.out;
    }
    let n = case.ops.len();
    for (i, op) in case.ops.iter().enumerate() {
        run.step = i + 1;
        let res = run
            .exec(op)
            .and_then(|failed| run.after_step(failed, i + 1 == n))
            .and_then(|()| {
                if run.twin.is_some() {
                    run.compare_twin()
                } else {
                    Ok(())
                }
            });
        if let Err(v) = res {
            run.log(|| format!("VIOLATION {} : {}", v.tag, v.msg));
            if or.continue_for_panics && v.tag != "PANIC" {
                run.out.stepped_over = Some(v);
                run.out.steps_done = i + 1;
                return run_degraded(run, &case.ops[i + 1..]);
            }
            run.out.violation = Some(v);
            run.out.steps_done = i;
            return run.out;
        }
        run.out.steps_done = i + 1;
    }
    run.out
}

/// The model no longer describes the allocator (another property's oracle fired): issue the
/// remaining calls anyway and report only a panic of the allocator. A panic of the harness itself
/// (its bookkeeping is not built for a diverged model) ends the case without a verdict.
fn run_degraded(mut run: Run, rest: &[Op]) -> Outcome {
    for op in rest {
        run.step += 1;
        match guarded(|| run.exec(op)) {
            Ok(Err(v)) if v.tag == "PANIC" => {
                run.out.violation = Some(v);
                return run.out;
            }
            Ok(_) => {}
            Err(_) => break,
        }
    }
    run.out.violation = run.out.stepped_over.clone();
    run.out
}
