#!/usr/bin/env python3
"""Regenerate /verif/MANIFEST.json from the table below (keeps it valid and current)."""
import json
import os
import subprocess

ROOT = os.path.dirname(os.path.dirname(os.path.abspath(__file__)))

SEQ_NOTE = ("Trusted: the harness's reference model (per-frame ownership map + whole-huge marker, written from the "
            "property statements), the serde case encoding, proptest's generators. Assumes sequential use, allocators "
            "of at most 4 trees per case (5 compile-time geometries in the thorough tier). No absence claim.")

CHECKS = {
    "C02": dict(engine="E1-seq", technique="model-based stateful property testing (proptest histories + bounded-exhaustive op sequences) against a frame-ownership reference model",
                text="Every call result of generated sequential histories is compared in both directions with an independent ownership model, with a per-frame scan after every failing call; exploration level because the history space is sampled (and exhaustively enumerated only up to a small length over an abstract alphabet).",
                ref="3/C02", note=SEQ_NOTE),
    "C04": dict(engine="E1-seq", technique="model-based stateful property testing; accounting invariants checked after every step against the reference model",
                text="After every call of generated histories all accounting views (exact counts, per-frame/huge/tree queries, is_free, fast count, validate) are compared with the model; sampled exploration.",
                ref="3/C04", note=SEQ_NOTE + " Offline operations restricted to entirely free trees, as the property states. The concurrent part is covered by the E2 end-state check once registered."),
    "C07": dict(engine="E1-seq", technique="differential testing: original vs twin rebuilt from byte copies (Init::None), identical continuation",
                text="Generated histories hand the metadata over at generated quiescent points; every later call and every statistic is compared between original and twin; sampled exploration.",
                ref="3/C07", note=SEQ_NOTE),
    "C09": dict(engine="E1-seq", technique="stateful property testing / robustness fuzzing with catch_unwind oracle (proptest histories + bounded-exhaustive sequences)",
                text="Widest generator (zero frames, zero-slot classes, zeroed policy, any tree id, partial offlining); oracle is 'no panic from construction or any call'; sampled exploration plus exhaustive short sequences.",
                ref="3/C09", note=SEQ_NOTE + " Harness profile: overflow-checks and debug-assertions on (as in the repository's profiles), panic=unwind so panics are observable."),
    "C10": dict(engine="E1-seq", technique="model-based stateful property testing with drain-then-checked-call steps",
                text="Completeness after drain is checked against the model's free set at generated points of generated histories; sampled exploration.",
                ref="3/C10", note=SEQ_NOTE + " Only policies that never return Invalid."),
    "C11": dict(engine="E1-seq", technique="model-based stateful property testing restricted to one class/one slot/base order, plus bounded-exhaustive sequences",
                text="Every failing base-order allocation of single-slot histories is checked against the model's free set; exhaustive over short sequences of an 8-op alphabet, sampled beyond.",
                ref="3/C11", note=SEQ_NOTE),
    "C13": dict(engine="E1-seq", technique="model-based stateful property testing with a policy-admissibility predicate on the reported class",
                text="Reported class of every successful allocation is checked against the configured policy function; sampled exploration over four policies.",
                ref="3/C13", note=SEQ_NOTE + " The concurrent part is covered by the E2 executions once registered."),
    "C14": dict(engine="E1-seq", technique="stateful property testing; per-class sum invariants after every step",
                text="Both sum invariants are evaluated after every call of generated histories; sampled exploration.",
                ref="3/C14", note=SEQ_NOTE),
    "C15": dict(engine="E1-seq", technique="model-based stateful property testing with a transition oracle for change_tree computed from observed tree words",
                text="Change-heavy generated histories; every change_tree result and effect is checked against the set of matching trees, and no allocation may come from an offline tree; sampled exploration plus exhaustive short sequences.",
                ref="3/C15", note=SEQ_NOTE),
}

NOT_APPLICABLE = {
    "C22": "the llc submodule (C implementation) is empty in this tree (update = none) and cannot be fetched offline; eval/src/llc.rs does not build without it, so there is no second implementation to run generated sequences against",
}

PENDING = {
    # properties whose checks are not registered yet (kept current while the machinery is being built)
}


def main():
    props = [json.loads(l) for l in open(os.path.join(ROOT, "properties.jsonl"))]
    ids = [p["id"] for p in props]
    hooks_commits = subprocess.run(["git", "-C", "/repo", "log", "--format=%h", "--grep", "verif"],
                                   capture_output=True, text=True).stdout.split()
    checks = []
    for pid in ids:
        if pid not in CHECKS:
            continue
        c = CHECKS[pid]
        checks.append({
            "property_id": pid,
            "quick_cmd": f"./vf check {pid} --tier quick",
            "thorough_cmd": f"./vf check {pid} --tier thorough",
            "evidence_file": f"/verif/evidence/{pid}.json",
            "replay_cmd_template": "./vf replay {path}",
            "engine": c["engine"],
            "level_claimed": {"category": c.get("level", "exploration"), "text": c["text"], "design_ref": "DESIGN.md section " + c["ref"]},
            "level_note": c["note"],
            "technique": c["technique"],
        })
    na = [{"property_id": k, "reason": v} for k, v in NOT_APPLICABLE.items()]
    for pid in ids:
        if pid not in CHECKS and pid not in NOT_APPLICABLE:
            na.append({"property_id": pid, "reason": PENDING.get(pid, "check not registered yet (machinery under construction, see DESIGN.md)")})
    man = {
        "version": 1,
        "setup_cmd": "./vf setup",
        "hooks": {
            "guard": "cargo feature `verif` of crate llfree (core/Cargo.toml)",
            "enable": "the harness depends on llfree with features [\"std\", \"verif\"] (path dependency on /repo/core), so every check rebuilds /repo's working tree with the hooks on",
            "baseline_off_cmd": "cd /repo && cargo test --workspace --no-fail-fast --offline",
            "source_commits": hooks_commits,
            "add_only": True,
        },
        "engines": [
            {"name": "E1-seq", "path": "harness/src/e1.rs", "serves_properties": [p for p in ids if CHECKS.get(p, {}).get("engine") == "E1-seq"],
             "kind_free_text": "sequential model-based interpreter: proptest-generated and bounded-exhaustively enumerated op histories stepped beside a frame-ownership reference model"},
        ],
        "checks": checks,
        "not_applicable": na,
        "notes": "All checks: ./vf check <ID> --tier quick|thorough (python3 driver, builds the Rust harness per compile-time geometry from /repo's working tree). Exit 2 = inconclusive (never a violation). Known findings: known_findings.json; regression cases of fixed findings: regress/.",
    }
    json.dump(man, open(os.path.join(ROOT, "MANIFEST.json"), "w"), indent=1)
    print("MANIFEST.json written:", len(checks), "checks,", len(na), "not claimed")


if __name__ == "__main__":
    main()
