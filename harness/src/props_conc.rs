//! Properties decided by engine E2 (generated schedules over hooked atomics):
//! C01, C03, C05, C21 and the concurrent parts of C04 and C13.

use std::collections::HashSet;
use std::sync::Mutex;
use std::sync::atomic::{AtomicBool, AtomicU64, AtomicUsize, Ordering};

use llfree::{HUGE_FRAMES, HUGE_ORDER, TREE_FRAMES, TREE_ORDER};
use proptest::prelude::*;
use serde_json::json;

use crate::cfg::{ClassKind, Config, InitKind};
use crate::e2::*;
use crate::gen_cfg::*;
use crate::known;
use crate::ops::*;
use crate::runner::*;
use crate::{Ctx, Finish};

/// Preemption/freeze positions are enumerated up to this step (catalogue programs take
/// 30-150 steps; an execution that runs into the step limit must not be extended 800000-fold).
const ENUM_STEP_CAP: u64 = 1500;

#[derive(Clone)]
pub struct ConcSpec {
    pub prop: &'static str,
    pub own_tags: &'static [&'static str],
    pub opts: ConcOpts,
    pub rule: &'static str,
    pub level: &'static str,
    pub nontrivial: fn(&ConcCase, &ConcOutcome) -> bool,
    /// proptest cases (quick, thorough)
    pub cases: (u64, u64),
    /// exhaustive preemption bound on the catalogue (quick, thorough); 0 = skip
    pub k: (usize, usize),
    pub freeze: bool,
    /// sequential (1-thread) share in percent of the generated cases (C05)
    pub single_thread_pct: u32,
    pub lower_only_pct: u32,
    /// calls per thread in generated programs (3; thorough tier 5)
    pub max_thread_ops: usize,
}

pub fn verdict_for(spec: &ConcSpec, case: &ConcCase, out: &ConcOutcome) -> Verdict {
    match &out.violation {
        None if !out.known_hits.is_empty() => Verdict::Known(out.known_hits[0].clone()),
        None => {
            let mut classes: Vec<&'static str> = out.feats.keys().copied().collect();
            if case.lower_only {
                classes.push("lower_only");
            }
            if case.threads.len() == 1 {
                classes.push("single_thread");
            }
            if case.cfg.init == InitKind::AllocAll {
                classes.push("cfg_alloc_all");
            }
            if case.cfg.frames % TREE_FRAMES != 0 {
                classes.push("cfg_partial_last_tree");
            }
            Verdict::Pass {
                nontrivial: (spec.nontrivial)(case, out),
                classes,
            }
        }
        Some(v) => {
            let full = format!("[{}] step {}: {}", v.tag, v.step, v.msg);
            if spec.own_tags.contains(&v.tag.as_str()) {
                if let Some(k) = known::matches(spec.prop, &full) {
                    Verdict::Known(k.id.clone())
                } else {
                    Verdict::Fail(full)
                }
            } else {
                let sig = match &v.panic {
                    Some(p) => format!("{}:{}", v.tag, p.msg.chars().take(40).collect::<String>()),
                    None => v.tag.clone(),
                };
                Verdict::Abort(sig)
            }
        }
    }
}

// ---------------------------------------------------------------------------------------
// generators

fn conc_weights() -> Weights {
    Weights {
        get: 30,
        get_target: 10,
        put_held: 25,
        put_part: 12,
        put_arbitrary: 0,
        put_cover: 0,
        drain: 5,
        change: 3,
        change_offline_full: 1,
        exhaust: 1,
        free_subset: 2,
        ..Weights::base(3)
    }
}

fn setup_weights() -> Weights {
    Weights {
        get: 50,
        get_target: 10,
        put_held: 8,
        put_part: 6,
        put_arbitrary: 0,
        put_cover: 0,
        drain: 3,
        exhaust: 1,
        free_subset: 1,
        ..Weights::base(3)
    }
}

fn cfg_conc() -> BoxedStrategy<Config> {
    let frames = prop_oneof![
        4 => Just(TREE_FRAMES),
        4 => Just(2 * TREE_FRAMES),
        2 => frames_strategy(2, false),
        1 => frames_strategy(4, false),
    ];
    let classes = prop_oneof![
        4 => (1..=2usize, 1..=2usize).prop_map(|(a, b)| ClassKind::Simple([a, b])),
        2 => (1..=2usize, 1..=2usize, 1..=2usize).prop_map(|(a, b, c)| ClassKind::Movable([a, b, c])),
        2 => (1..=2usize, 1..=2usize, 1..=2usize).prop_map(|(a, b, c)| ClassKind::Zeroed([a, b, c])),
        1 => (1..=2usize).prop_map(ClassKind::Single),
        1 => (0..=1usize, 1..=2usize).prop_map(|(a, b)| ClassKind::Simple([a, b])),
    ];
    (
        frames,
        prop_oneof![4 => Just(InitKind::FreeAll), 1 => Just(InitKind::AllocAll)],
        classes,
    )
        .prop_map(|(frames, init, classes)| Config {
            frames,
            init,
            classes,
        })
        .boxed()
}

fn sched_strategy(n: usize) -> BoxedStrategy<Sched> {
    let step = || prop_oneof![3 => 0u32..40, 2 => 0u32..150, 1 => 0u32..600];
    let base = Just((0..n as u8).collect::<Vec<u8>>()).prop_shuffle();
    prop_oneof![
        3 => (base, prop::collection::vec((step(), 0u8..(n.max(2) as u8 - 1)), 0..=8))
            .prop_map(|(base, points)| Sched::Preempt { base, points }),
        1 => (prop::collection::vec(any::<u8>(), n), prop::collection::vec(step(), 0..=4))
            .prop_map(|(prio, changes)| Sched::Pct { prio, changes }),
    ]
    .boxed()
}

pub fn case_strategy(spec: &ConcSpec) -> BoxedStrategy<ConcCase> {
    let single = spec.single_thread_pct;
    let lower = spec.lower_only_pct;
    let freeze = spec.freeze;
    let per_thread = spec.max_thread_ops;
    let tw = conc_weights();
    let sw = setup_weights();
    let nthreads = prop_oneof![
        single => Just(1usize),
        (100 - single) * 3 / 4 => Just(2usize),
        (100 - single) / 4 + 1 => Just(3usize),
    ];
    (cfg_conc(), nthreads, 0u32..100)
        .prop_flat_map(move |(cfg, n, lo)| {
            let max_ops = if n == 1 { 12 } else { per_thread };
            (
                Just(cfg),
                prop::collection::vec(op_strategy(&sw), 0..=6),
                prop::collection::vec(prop::collection::vec(op_strategy(&tw), 1..=max_ops), n),
                sched_strategy(n),
                Just(lo < lower),
                any::<bool>(),
                if freeze {
                    (prop_oneof![3 => 0u32..60, 1 => 0u32..400], 0u8..n as u8)
                        .prop_map(Some)
                        .boxed()
                } else {
                    Just(None).boxed()
                },
            )
        })
        .prop_map(|(cfg, setup, threads, sched, lower_only, split_deal, freeze)| ConcCase {
            cfg,
            setup,
            threads,
            sched,
            lower_only,
            freeze,
            split_deal,
        })
        .boxed()
}

// ---------------------------------------------------------------------------------------
// aimed catalogue

fn s0() -> SlotSel {
    SlotSel::Slot(0)
}
fn s1() -> SlotSel {
    SlotSel::Slot(0xffff)
}
fn get(order: usize, class: u8, slot: SlotSel) -> Op {
    Op::Get {
        order: order as u8,
        class,
        slot,
        target: Target::None,
    }
}
fn get_at(order: usize, class: u8, slot: SlotSel, target: Target) -> Op {
    Op::Get {
        order: order as u8,
        class,
        slot,
        target,
    }
}
fn put(i: Frac, class: u8, slot: SlotSel) -> Op {
    Op::Put {
        what: PutWhat::Held(i),
        class,
        slot,
    }
}
fn put_part(i: Frac, down: u8, part: Frac) -> Op {
    Op::Put {
        what: PutWhat::Part {
            held: i,
            down,
            part,
        },
        class: 0,
        slot: SlotSel::None,
    }
}

pub struct Template {
    pub name: &'static str,
    pub cfg: Config,
    pub setup: Vec<Op>,
    pub threads: Vec<Vec<Op>>,
    pub lower_only: bool,
}

impl Template {
    /// halves of setup-held blocks go to different threads
    pub fn split_deal(&self) -> bool {
        self.name.contains("different parts of one whole")
    }
}

pub fn catalogue() -> Vec<Template> {
    let one = Config {
        frames: TREE_FRAMES,
        init: InitKind::FreeAll,
        classes: ClassKind::Simple([1, 1]),
    };
    let two = Config {
        frames: 2 * TREE_FRAMES,
        init: InitKind::FreeAll,
        classes: ClassKind::Simple([2, 2]),
    };
    let two1 = Config {
        frames: 2 * TREE_FRAMES,
        init: InitKind::FreeAll,
        classes: ClassKind::Simple([1, 1]),
    };
    let h = HUGE_ORDER;
    let mut v = vec![
        Template {
            name: "two base allocations in one huge frame",
            cfg: one.clone(),
            setup: vec![],
            threads: vec![vec![get(0, 0, SlotSel::None)], vec![get(0, 0, SlotSel::None)]],
            lower_only: false,
        },
        Template {
            name: "multi-row allocation (order 7/8) vs small allocation in the same huge frame",
            cfg: one.clone(),
            setup: vec![],
            threads: vec![vec![get(8, 0, SlotSel::None)], vec![get(0, 0, SlotSel::None)]],
            lower_only: false,
        },
        Template {
            name: "order 7 vs order 6 in the same huge frame, then frees",
            cfg: one.clone(),
            setup: vec![],
            threads: vec![
                vec![get(7, 0, SlotSel::None), put(0, 0, SlotSel::None)],
                vec![get(6, 0, SlotSel::None), put(0, 0, SlotSel::None)],
            ],
            lower_only: false,
        },
        Template {
            name: "order 7 vs order 6 in the same rows, then another small allocation",
            cfg: one.clone(),
            setup: vec![],
            threads: vec![
                vec![get(7, 0, SlotSel::None)],
                vec![get(6, 0, SlotSel::None), get(0, 0, SlotSel::None)],
            ],
            lower_only: false,
        },
        Template {
            name: "order 8 vs order 7 in the same rows, then an order 3 allocation",
            cfg: one.clone(),
            setup: vec![],
            threads: vec![
                vec![get(8, 0, SlotSel::None)],
                vec![get(7, 0, SlotSel::None), get(3, 0, SlotSel::None)],
            ],
            lower_only: false,
        },
        Template {
            name: "huge allocation vs base allocation",
            cfg: one.clone(),
            setup: vec![],
            threads: vec![vec![get(h, 1, SlotSel::None)], vec![get(0, 0, SlotSel::None)]],
            lower_only: false,
        },
        Template {
            name: "multi-huge allocation vs huge allocation",
            cfg: one.clone(),
            setup: vec![],
            threads: vec![
                vec![get(TREE_ORDER, 1, SlotSel::None)],
                vec![get(h, 1, SlotSel::None), put(0, 1, SlotSel::None)],
            ],
            lower_only: false,
        },
        Template {
            name: "free vs allocation in one row",
            cfg: one.clone(),
            setup: vec![get(0, 0, SlotSel::None), get(0, 0, SlotSel::None)],
            threads: vec![vec![put(0, 0, SlotSel::None)], vec![get(0, 0, SlotSel::None), get(1, 0, SlotSel::None)]],
            lower_only: false,
        },
        Template {
            name: "drain vs allocation through a slot",
            cfg: two1.clone(),
            setup: vec![get(0, 0, s0())],
            threads: vec![vec![Op::Drain], vec![get(0, 0, s0()), get(3, 0, s0())]],
            lower_only: false,
        },
        Template {
            name: "two slots racing for trees",
            cfg: Config { frames: 3 * TREE_FRAMES, ..two.clone() },
            setup: vec![],
            threads: vec![vec![get(0, 0, s0()), get(0, 0, s0())], vec![get(0, 0, s1()), get(h, 1, s1())]],
            lower_only: false,
        },
        Template {
            name: "targeted vs untargeted allocation",
            cfg: one.clone(),
            setup: vec![],
            threads: vec![
                vec![get_at(0, 0, SlotSel::None, Target::Boundary(2))],
                vec![get(0, 0, SlotSel::None)],
            ],
            lower_only: false,
        },
        Template {
            name: "frees into a reserved tree vs sync by the owner",
            cfg: two1.clone(),
            setup: vec![Op::Exhaust { order: 0, class: 0, slot: s0() }],
            threads: vec![
                vec![put(0, 0, SlotSel::None), put(0, 0, SlotSel::None)],
                vec![get(0, 0, s0()), get(0, 0, s0())],
            ],
            lower_only: false,
        },
        Template {
            name: "two threads free different parts of one whole-allocated huge frame",
            cfg: one.clone(),
            setup: vec![get(h, 1, SlotSel::None)],
            threads: vec![vec![put_part(0, 8, 0)], vec![put_part(0, 8, 0xffff)]],
            lower_only: false,
        },
        Template {
            name: "partial free of a whole huge frame vs allocation",
            cfg: one.clone(),
            setup: vec![get(h, 1, SlotSel::None)],
            threads: vec![vec![put_part(0, 9, 0)], vec![get(0, 0, SlotSel::None), get(7, 0, SlotSel::None)]],
            lower_only: false,
        },
        Template {
            name: "offline/online vs allocation",
            cfg: two1.clone(),
            setup: vec![],
            threads: vec![
                vec![
                    Op::Change { sel: TreeSel::Match, class: None, min_free: MinFree::Tree, set_class: None, op: TreeOp::Offline },
                    Op::Change { sel: TreeSel::Match, class: None, min_free: MinFree::Zero, set_class: Some(0), op: TreeOp::Online },
                ],
                vec![get(0, 0, s0()), get(h, 1, SlotSel::None)],
            ],
            lower_only: false,
        },
        Template {
            name: "steal/demote of a local reservation vs its owner",
            cfg: Config { frames: TREE_FRAMES * 2, init: InitKind::FreeAll, classes: ClassKind::Movable([1, 1, 1]) },
            setup: vec![get(0, 1, s0()), get(TREE_ORDER, 2, SlotSel::None)],
            threads: vec![vec![get(0, 0, s0())], vec![get(0, 1, s0()), put(0, 1, s0())]],
            lower_only: false,
        },
    ];
    // lower-only variants (direct lower.get/put): fewer steps per call, deeper interleavings
    let mut lo = Vec::new();
    for i in [0usize, 1, 2, 3, 4, 6, 7, 12, 13] {
        let t = &v[i];
        lo.push(Template {
            name: t.name,
            cfg: t.cfg.clone(),
            setup: t.setup.clone(),
            threads: t.threads.clone(),
            lower_only: true,
        });
    }
    // three threads on one huge frame
    lo.push(Template {
        name: "three threads: order 8, order 0, order 3 in one huge frame",
        cfg: one.clone(),
        setup: vec![],
        threads: vec![vec![get(8, 0, SlotSel::None)], vec![get(0, 0, SlotSel::None)], vec![get(3, 0, SlotSel::None)]],
        lower_only: true,
    });
    v.extend(lo);
    let _ = HUGE_FRAMES;
    v
}

// ---------------------------------------------------------------------------------------
// drivers

struct Shared {
    stats: Mutex<Stats>,
    fail: Mutex<Option<(usize, ConcCase, String)>>,
    stop: AtomicBool,
    crash_checked: AtomicU64,
    crash_skipped: AtomicU64,
    crash_nt: Mutex<HashSet<u64>>,
    max_solo: AtomicU64,
}

/// run_conc with the current case registered for the fault handler
fn run_tracked(prop: &str, case: &ConcCase, opts: &ConcOpts) -> ConcOutcome {
    let doc = crate::fault_doc(prop, "conc", case);
    crate::crash::set_current(&doc);
    let out = run_conc(case, opts);
    crate::crash::clear_current();
    out
}

fn judge(spec: &ConcSpec, sh: &Shared, case: &ConcCase) -> Verdict {
    let out = run_tracked(spec.prop, case, &spec.opts);
    sh.crash_checked.fetch_add(out.crash_checked, Ordering::Relaxed);
    sh.crash_skipped.fetch_add(out.crash_skipped, Ordering::Relaxed);
    if !out.crash_nontrivial.is_empty() {
        let key = hash_of(&(&case.cfg, &case.setup));
        let mut g = sh.crash_nt.lock().unwrap();
        for h in &out.crash_nontrivial {
            g.insert(h ^ key);
        }
    }
    sh.max_solo.fetch_max(out.solo_steps, Ordering::Relaxed);
    verdict_for(spec, case, &out)
}

/// Exhaustive enumeration of all schedules with at most `k` preemptions for every catalogue program.
fn run_catalogue(spec: &ConcSpec, sh: &Shared, k: usize, ev: &mut Evidence) -> Option<(ConcCase, String)> {
    let cat = catalogue();
    // work items: (template, base order, first preemption or none)
    let mut items: Vec<(usize, Vec<u8>, Option<(u32, u8)>)> = Vec::new();
    for (ti, t) in cat.iter().enumerate() {
        let n = t.threads.len();
        let bases: Vec<Vec<u8>> = if n == 2 {
            vec![vec![0, 1], vec![1, 0]]
        } else {
            vec![vec![0, 1, 2], vec![1, 2, 0], vec![2, 0, 1]]
        };
        for base in bases {
            let case = ConcCase {
                cfg: t.cfg.clone(),
                setup: t.setup.clone(),
                threads: t.threads.clone(),
                sched: Sched::Preempt { base: base.clone(), points: vec![] },
                lower_only: t.lower_only,
                freeze: None,
                split_deal: t.split_deal(),
            };
            let out = run_tracked(spec.prop, &case, &ConcOpts::default());
            items.push((ti, base.clone(), None));
            for p in 1..=out.steps.min(ENUM_STEP_CAP) as u32 {
                for to in 0..(n as u8 - 1) {
                    items.push((ti, base.clone(), Some((p, to))));
                }
            }
        }
    }
    let next = AtomicUsize::new(0);
    let total_exec = AtomicU64::new(0);
    std::thread::scope(|s| {
        for _ in 0..threads() {
            let (next, items, cat, total_exec) = (&next, &items, &cat, &total_exec);
            std::thread::Builder::new()
                .stack_size(16 << 20)
                .spawn_scoped(s, move || {
                    crate::crash::altstack();
                    let mut stats = Stats::default();
                    loop {
                        let i = next.fetch_add(1, Ordering::Relaxed);
                        if i >= items.len() || sh.stop.load(Ordering::Relaxed) {
                            break;
                        }
                        let (ti, base, first) = &items[i];
                        let t = &cat[*ti];
                        let n = t.threads.len() as u8;
                        let mut points: Vec<(u32, u8)> = first.iter().copied().collect();
                        let depth0 = points.len();
                        // iterative DFS over extensions
                        fn dfs(
                            spec: &ConcSpec,
                            sh: &Shared,
                            t: &Template,
                            base: &Vec<u8>,
                            points: &mut Vec<(u32, u8)>,
                            depth: usize,
                            k: usize,
                            n: u8,
                            stats: &mut Stats,
                            idx: usize,
                            count: &AtomicU64,
                        ) {
                            if sh.stop.load(Ordering::Relaxed) {
                                return;
                            }
                            let mut case = ConcCase {
                                cfg: t.cfg.clone(),
                                setup: t.setup.clone(),
                                threads: t.threads.clone(),
                                sched: Sched::Preempt { base: base.clone(), points: points.clone() },
                                lower_only: t.lower_only,
                                freeze: None,
                                split_deal: t.split_deal(),
                            };
                            let steps;
                            if spec.freeze {
                                // freeze mode: every freeze point x every thread under this schedule
                                let out0 = run_tracked(spec.prop, &case, &ConcOpts::default());
                                steps = out0.steps.min(ENUM_STEP_CAP);
                                for p in 1..=steps as u32 {
                                    for th in 0..n {
                                        case.freeze = Some((p, th));
                                        let v = judge(spec, sh, &case);
                                        count.fetch_add(1, Ordering::Relaxed);
                                        if let Verdict::Fail(m) = &v {
                                            sh.stop.store(true, Ordering::Relaxed);
                                            let mut f = sh.fail.lock().unwrap();
                                            if f.as_ref().is_none_or(|(j, _, _)| idx < *j) {
                                                *f = Some((idx, case.clone(), m.clone()));
                                            }
                                            return;
                                        }
                                        stats_record(stats, &case, &v);
                                    }
                                }
                            } else {
                                let out = run_tracked(spec.prop, &case, &spec.opts);
                                steps = out.steps.min(ENUM_STEP_CAP);
                                sh.crash_checked.fetch_add(out.crash_checked, Ordering::Relaxed);
                                sh.crash_skipped.fetch_add(out.crash_skipped, Ordering::Relaxed);
                                if !out.crash_nontrivial.is_empty() {
                                    let key = hash_of(&(&case.cfg, &case.setup));
                                    let mut g = sh.crash_nt.lock().unwrap();
                                    for h in &out.crash_nontrivial {
                                        g.insert(h ^ key);
                                    }
                                }
                                let v = verdict_for(spec, &case, &out);
                                count.fetch_add(1, Ordering::Relaxed);
                                if let Verdict::Fail(m) = &v {
                                    sh.stop.store(true, Ordering::Relaxed);
                                    let mut f = sh.fail.lock().unwrap();
                                    if f.as_ref().is_none_or(|(j, _, _)| idx < *j) {
                                        *f = Some((idx, case.clone(), m.clone()));
                                    }
                                    return;
                                }
                                stats_record(stats, &case, &v);
                            }
                            if depth >= k {
                                return;
                            }
                            let from = points.last().map(|p| p.0 + 1).unwrap_or(1);
                            for p in from..=steps as u32 {
                                for to in 0..(n - 1) {
                                    points.push((p, to));
                                    dfs(spec, sh, t, base, points, depth + 1, k, n, stats, idx, count);
                                    points.pop();
                                }
                            }
                        }
                        if depth0 == 0 {
                            // the unpreempted run only (its extensions are separate work items)
                            dfs(spec, sh, t, base, &mut points, k, k, n, &mut stats, i, total_exec);
                        } else {
                            dfs(spec, sh, t, base, &mut points, depth0, k, n, &mut stats, i, total_exec);
                        }
                    }
                    sh.stats.lock().unwrap().merge(stats);
                })
                .unwrap();
        }
    });
    if let Some((_, case, msg)) = sh.fail.lock().unwrap().take() {
        return Some((case, msg));
    }
    ev.stats.exhaustive.push(format!(
        "every schedule with at most {k} preemptions (all positions, all switch targets, all base orders) of each of {} catalogue programs: {} executions{}",
        cat.len(),
        total_exec.load(Ordering::Relaxed),
        if spec.freeze { " (freeze mode: k-1 preemptions x every freeze point x every thread)" } else { "" }
    ));
    None
}

fn stats_record(stats: &mut Stats, case: &ConcCase, v: &Verdict) {
    stats.evaluations += 1;
    match v {
        Verdict::Pass { nontrivial, classes } => {
            for c in classes {
                *stats.hist.entry((*c).to_string()).or_insert(0) += 1;
            }
            if *nontrivial {
                if stats.nontrivial.insert(hash_of(case)) && stats.nontrivial_samples.len() < 3 {
                    stats.nontrivial_samples.push(serde_json::to_value(case).unwrap());
                }
            } else if stats.samples.is_empty() {
                stats.samples.push(serde_json::to_value(case).unwrap());
            }
        }
        Verdict::Known(k) => *stats.known.entry(k.clone()).or_insert(0) += 1,
        Verdict::Abort(k) => *stats.aborted.entry(k.clone()).or_insert(0) += 1,
        Verdict::Fail(_) => {}
    }
}

pub fn run_spec(spec: &ConcSpec, ctx: &Ctx) -> Finish {
    let thorough = ctx.tier == "thorough";
    let mut spec = spec.clone();
    if thorough {
        spec.max_thread_ops = 5;
    }
    let spec = &spec;
    crate::install_fault_handler(ctx);
    let mut ev = Evidence::new(spec.prop, &ctx.tier, ctx.seed, spec.level, spec.rule);
    ev.assumptions = vec![
        "sequentially consistent interleavings at the granularity of Atom operations (Acquire/Release reorderings are not explored)".into(),
        "logical threads are coroutines on one OS thread; a generated schedule decides which one performs the next atomic access; call entry/exit are scheduling points".into(),
        "allocators of 1-4 trees, 1-3 logical threads with 1-3 calls each (1 thread with up to 12 calls in the sequential share)".into(),
    ];
    if spec.opts.crash {
        ev.assumptions.push("persistency model: writes to the persistent buffer become durable in program order; a crash is taken before every hooked write-kind access to the buffer and at the end".into());
    }
    let sh = Shared {
        stats: Mutex::new(Stats::default()),
        fail: Mutex::new(None),
        stop: AtomicBool::new(false),
        crash_checked: AtomicU64::new(0),
        crash_skipped: AtomicU64::new(0),
        crash_nt: Mutex::new(HashSet::new()),
        max_solo: AtomicU64::new(0),
    };
    let k = if thorough { spec.k.1 } else { spec.k.0 };
    if k > 0 {
        let k_eff = if spec.freeze { k - 1 } else { k };
        if let Some((case, msg)) = run_catalogue(spec, &sh, k_eff, &mut ev) {
            ev.stats.merge(std::mem::take(&mut *sh.stats.lock().unwrap()));
            return ctx.fail(ev, "conc", &case, msg);
        }
        ev.stats.merge(std::mem::take(&mut *sh.stats.lock().unwrap()));
    }
    let cases = ctx.scale(if thorough { spec.cases.1 } else { spec.cases.0 });
    let (stats, fail) = run_proptest(ctx.seed, cases, || case_strategy(spec), |c| judge(spec, &sh, c));
    ev.stats.merge(stats);
    if let Some(f) = fail {
        return ctx.fail(ev, "conc", &f.case, f.msg);
    }
    if spec.opts.crash {
        let nt = sh.crash_nt.lock().unwrap().len();
        ev.extra.insert("executions".into(), json!(ev.stats.evaluations));
        ev.extra.insert("crash_points_recovered".into(), json!(sh.crash_checked.load(Ordering::Relaxed)));
        ev.extra.insert("crash_points_skipped_as_duplicate_state".into(), json!(sh.crash_skipped.load(Ordering::Relaxed)));
        ev.extra.insert("nontrivial_cases".into(), json!(ev.stats.nontrivial.len()));
        ev.stats.evaluations = sh.crash_checked.load(Ordering::Relaxed);
        // distinct non-trivial crash states
        ev.stats.nontrivial = (0..nt as u64).collect();
        *ev.extra.entry("note".into()).or_insert(json!("")) = json!("evaluations = crash points at which real recovery ran and was checked; distinct_nontrivial = distinct crash states whose persistent image differs from both the pre-call and the post-call image of the call in flight");
        ev.stats.nontrivial = sh.crash_nt.lock().unwrap().iter().copied().collect();
    }
    if spec.freeze {
        ev.extra.insert("largest_solo_step_count".into(), json!(sh.max_solo.load(Ordering::Relaxed)));
        ev.extra.insert("solo_bound".into(), json!(SOLO_BOUND));
    }
    ev.extra.insert(
        "drivers".into(),
        json!({"catalogue_preemption_bound": k, "proptest_cases": cases}),
    );
    ctx.pass(ev)
}

pub fn replay(prop: &str, case: &ConcCase) -> Option<String> {
    let spec = spec_for(prop)?;
    let quiet = crate::QUIET.load(Ordering::Relaxed);
    let mut opts = spec.opts.clone();
    opts.verbose = !quiet;
    let out = run_conc(case, &opts);
    for l in &out.trace {
        println!("{l}");
    }
    match verdict_for(&spec, case, &out) {
        Verdict::Fail(m) => Some(m),
        Verdict::Known(k) => {
            println!("KNOWN-FINDING: property={prop} {k}: reproduced by this replay file (listed in known_findings.json)");
            None
        }
        v => {
            if !quiet {
                println!("verdict: {v:?} steps={}", out.steps);
            }
            None
        }
    }
}

fn nt_overlap(_c: &ConcCase, o: &ConcOutcome) -> bool {
    o.feat("switch_inside_call") > 0 && o.feat("overlap_same_tree") > 0
}

pub fn spec_for(prop: &str) -> Option<ConcSpec> {
    let base = ConcSpec {
        prop: "",
        own_tags: &[],
        opts: ConcOpts::default(),
        rule: "",
        level: "exploration",
        nontrivial: nt_overlap,
        cases: (60_000, 3_000_000),
        k: (2, 3),
        freeze: false,
        single_thread_pct: 0,
        lower_only_pct: 25,
        max_thread_ops: 3,
    };
    let mut spec = match prop {
        "C01" => ConcSpec {
            prop: "C01",
            own_tags: &["C01"],
            rule: "executions = (program, schedule). Programs: an aimed catalogue (22 two/three-thread programs: racing allocations of different orders in one huge frame, huge vs base, frees vs allocations, drain/steal/demote/offline races, upper-level and lower-level) under every schedule with at most k preemptions, plus proptest-generated programs (setup history + 2-3 threads x 1-3 calls of any order/target/slot, frees of held blocks and parts, drains, tree changes; 1-4 trees) under generated preemption lists (<=8) and PCT priority schedules. Oracle at every allocation return: block aligned, inside the managed range, disjoint from every block currently held by any thread. Non-trivial = execution with a context switch strictly inside a call AND two calls of different threads that overlap in time and touch metadata of the same tree; distinct by (program, schedule) hash.",
            ..base
        },
        "C03" => ConcSpec {
            prop: "C03",
            own_tags: &["C03", "PANIC", "C01"],
            opts: ConcOpts { epilogue: true, ..Default::default() },
            rule: "same executions as C01 (callers are well-behaved by construction: a thread frees only blocks it holds, or parts of them), each followed by a sequential epilogue of the same well-behaved history (drain, free every block still held, drain). Oracle: no call panics, every free of a held block returns Ok, every successful allocation satisfies the C01 predicate. Non-trivial = context switch strictly inside a call AND overlapping calls on the same tree; distinct by (program, schedule) hash.",
            ..base
        },
        "C04c" | "C04" => ConcSpec {
            prop: "C04",
            own_tags: &["C04"],
            opts: ConcOpts { check_end: true, ..Default::default() },
            rule: "concurrent part: at the quiescent end of every execution (see C01 for the generator) per-frame status, exact free counts, fast count (= exact - offline trees) and validate() are compared with the ownership map.",
            lower_only_pct: 0,
            cases: (30_000, 1_500_000),
            k: (1, 2),
            ..base
        },
        "C13c" | "C13" => ConcSpec {
            prop: "C13",
            own_tags: &["C13"],
            opts: ConcOpts { class: true, ..Default::default() },
            rule: "concurrent part: the class predicate is evaluated at every allocation return of the C01 executions.",
            nontrivial: |_, o| o.feat("class_differs") > 0 && o.feat("switch_inside_call") > 0,
            lower_only_pct: 0,
            cases: (30_000, 1_500_000),
            k: (1, 2),
            ..base
        },
        "C05" => ConcSpec {
            prop: "C05",
            own_tags: &["C05"],
            opts: ConcOpts { crash: true, ..Default::default() },
            level: "fault_enumeration",
            rule: "fault = crash point. Every execution (60% single-thread histories of up to 12 calls, 40% 2-3 thread executions under generated schedules, plus the catalogue under every <=k-preemption schedule) is run with the persistent (lower) buffer snapshotted before EVERY hooked write-kind access to it and at the end; each distinct (image, ownership, in-flight) state is recovered with the real Init::Recover over fresh zeroed volatile buffers and checked: completed blocks still allocated and freeable at their original order (remaining pieces after a started partial free at the sub-order), free frames not touched by an in-flight call free, fast == exact == per-frame scan, validate() passes, no panic. Frame counts: whole trees, short last trees, partial last huge frames. Non-trivial = crash state whose image differs from both the pre-call and post-call image of the call in flight; distinct by (image hash, program).",
            nontrivial: |_, o| !o.crash_nontrivial.is_empty(),
            cases: (20_000, 1_000_000),
            k: (1, 2),
            single_thread_pct: 60,
            lower_only_pct: 30,
            ..base
        },
        "C21" => ConcSpec {
            prop: "C21",
            own_tags: &["C21", "LIMIT"],
            rule: "case = C01 execution + (freeze step p, thread t): at global step p every thread except t stops being scheduled (possibly in the middle of a call); t's call in progress (or its next call) must return within 20000 of its own atomic steps; a panic of the solo call counts as not finishing. Catalogue: every freeze point x every thread under every schedule with <= k-1 preemptions; proptest: generated programs, schedules and freeze points. Non-trivial = freeze point at which another thread is strictly inside a call; distinct by case hash.",
            nontrivial: |_, o| o.feat("freeze_other_in_call") > 0,
            freeze: true,
            cases: (60_000, 3_000_000),
            k: (2, 3),
            ..base
        },
        _ => return None,
    };
    if spec.opts.crash {
        spec.opts.tolerate = known::open_findings(spec.prop)
            .iter()
            .map(|f| (f.id.clone(), f.msg_contains.clone()))
            .collect();
    }
    Some(spec)
}
