//! Generators for allocator configurations.

use llfree::{HUGE_FRAMES, TREE_FRAMES};
use proptest::prelude::*;

use crate::cfg::{ClassKind, Config, InitKind};

/// Frame counts for 1..=max_trees trees, dense around huge/tree boundaries.
pub fn frames_strategy(max_trees: usize, allow_zero: bool) -> BoxedStrategy<usize> {
    let max = max_trees * TREE_FRAMES;
    let lo = if allow_zero { 0usize } else { 1 };
    prop_oneof![
        // whole trees
        4 => (1..=max_trees).prop_map(|t| t * TREE_FRAMES),
        // whole huge frames (short last tree)
        3 => (1..=max / HUGE_FRAMES).prop_map(|h| h * HUGE_FRAMES),
        // just around a huge boundary
        3 => ((1..=max / HUGE_FRAMES), (1usize..70), any::<bool>()).prop_map(move |(h, d, up)| {
            let b = h * HUGE_FRAMES;
            if up { (b + d).min(max) } else { b - d.min(b - 1) }
        }),
        // anything
        2 => lo..=max,
        // tiny
        1 => lo..=130usize,
    ]
    .boxed()
}

fn slots(max: usize, allow_zero: bool) -> BoxedStrategy<usize> {
    // mostly 1..=max slots; now and then many more (the slot index arithmetic and the size of
    // the local metadata depend on the count)
    if allow_zero {
        prop_oneof![20 => 1..=max, 4 => Just(0usize), 1 => max + 1..=17].boxed()
    } else {
        prop_oneof![20 => 1..=max, 1 => max + 1..=17].boxed()
    }
}

pub fn class_strategy(allow_zero_slots: bool, with_invalid: bool) -> BoxedStrategy<ClassKind> {
    let z = allow_zero_slots;
    let s = move || slots(3, z);
    let mut alts: Vec<(u32, BoxedStrategy<ClassKind>)> = vec![
        (4, (s(), s()).prop_map(|(a, b)| ClassKind::Simple([a, b])).boxed()),
        (
            3,
            (s(), s(), s())
                .prop_map(|(a, b, c)| ClassKind::Movable([a, b, c]))
                .boxed(),
        ),
        (
            3,
            (s(), s(), s())
                .prop_map(|(a, b, c)| ClassKind::Zeroed([a, b, c]))
                .boxed(),
        ),
        (2, s().prop_map(ClassKind::Single).boxed()),
        // class ids with gaps / not starting at 0
        (
            1,
            (s(), s(), prop::sample::subsequence((0u8..8).collect::<Vec<_>>(), 2))
                .prop_map(|(a, b, ids)| ClassKind::SimpleIds([a, b], [ids[0], ids[1]]))
                .boxed(),
        ),
        (
            1,
            (s(), s(), s(), prop::sample::subsequence((0u8..8).collect::<Vec<_>>(), 3))
                .prop_map(|(a, b, c, ids)| ClassKind::MovableIds([a, b, c], [ids[0], ids[1], ids[2]]))
                .boxed(),
        ),
    ];
    if with_invalid {
        alts.push((
            4,
            (1..=2usize, 1..=2usize, 1..=2usize)
                .prop_map(|(a, b, c)| ClassKind::WithInvalid([a, b, c]))
                .boxed(),
        ));
    }
    proptest::strategy::Union::new_weighted(alts).boxed()
}

pub fn init_strategy() -> BoxedStrategy<InitKind> {
    prop_oneof![3 => Just(InitKind::FreeAll), 1 => Just(InitKind::AllocAll)].boxed()
}

pub fn config_strategy(
    max_trees: usize,
    allow_zero_frames: bool,
    allow_zero_slots: bool,
    with_invalid: bool,
) -> BoxedStrategy<Config> {
    let frames = if max_trees >= 4 {
        // mostly small allocators (cheap cases, every boundary of the last tree), one case in
        // sixteen with 5..=24 trees: searches that alternate around a start index, candidate
        // caches and metadata padding periods only differ there
        prop_oneof![
            15 => frames_strategy(max_trees, allow_zero_frames),
            1 => many_trees_strategy(),
        ]
        .boxed()
    } else {
        frames_strategy(max_trees, allow_zero_frames)
    };
    (frames, init_strategy(), class_strategy(allow_zero_slots, with_invalid))
        .prop_map(|(frames, init, classes)| Config {
            frames,
            init,
            classes,
        })
        .boxed()
}

/// 5..=24 trees, the last one whole, cut at a huge-frame boundary, or cut anywhere.
pub fn many_trees_strategy() -> BoxedStrategy<usize> {
    (
        5usize..=24,
        prop_oneof![
            3 => Just(0usize),
            2 => (0..TREE_FRAMES / HUGE_FRAMES).prop_map(|h| h * HUGE_FRAMES),
            2 => 1..TREE_FRAMES,
        ],
    )
        .prop_map(|(t, r)| if r == 0 { t * TREE_FRAMES } else { (t - 1) * TREE_FRAMES + r })
        .boxed()
}
