//! Properties decided by engine E1 (sequential model-based histories).

use llfree::{HUGE_ORDER, TREE_FRAMES, TREE_ORDER};
use proptest::prelude::*;
use serde_json::json;

use crate::cfg::{ClassKind, Config, InitKind};
use crate::e1::{Oracles, Outcome, SeqCase, run_seq};
use crate::gen_cfg::*;
use crate::known;
use crate::ops::*;
use crate::runner::*;
use crate::{Ctx, Finish};

pub struct SeqSpec {
    pub prop: &'static str,
    /// oracle tags whose violations belong to this property
    pub own_tags: &'static [&'static str],
    pub oracles: Oracles,
    pub rule: &'static str,
    pub nontrivial: fn(&SeqCase, &Outcome) -> bool,
    pub weights: fn() -> Weights,
    pub cfg: fn() -> BoxedStrategy<Config>,
    pub max_ops: usize,
    /// (quick, thorough) proptest cases
    pub cases: (u64, u64),
    /// (quick, thorough) enumeration length, 0 = none
    pub enum_len: (usize, usize),
    pub enum_cfgs: fn() -> Vec<Config>,
    pub enum_alphabet: fn() -> Vec<Op>,
    pub assumptions: &'static [&'static str],
}

pub fn verdict_for(spec: &SeqSpec, case: &SeqCase, out: &Outcome) -> Verdict {
    match &out.violation {
        None => {
            let mut classes: Vec<&'static str> = out.feats.keys().copied().collect();
            if case.cfg.init == InitKind::AllocAll {
                classes.push("cfg_alloc_all");
            }
            if case.cfg.frames % TREE_FRAMES != 0 {
                classes.push("cfg_partial_last_tree");
            }
            if case.cfg.classes.slots().contains(&0) {
                classes.push("cfg_zero_slot_class");
            }
            if case.cfg.classes.ids().iter().enumerate().any(|(i, &id)| id as usize != i) {
                classes.push("cfg_class_ids_with_gaps");
            }
            if case.cfg.trees() > 4 {
                classes.push("cfg_5_to_24_trees");
            }
            if case.cfg.classes.slots().iter().any(|&s| s > 3) {
                classes.push("cfg_4_to_17_slots");
            }
            Verdict::Pass {
                nontrivial: (spec.nontrivial)(case, out),
                classes,
            }
        }
        Some(v) => {
            let full = format!("[{}] step {}: {}", v.tag, v.step, v.msg);
            if spec.own_tags.contains(&v.tag.as_str()) {
                if let Some(k) = known::matches(spec.prop, &full) {
                    Verdict::Known(k.id.clone())
                } else {
                    Verdict::Fail(full)
                }
            } else {
                // another property's oracle fired first: this case cannot be judged further
                let sig = match &v.panic {
                    Some(p) => format!("{}:{}", v.tag, p.msg.chars().take(40).collect::<String>()),
                    None => v.tag.clone(),
                };
                Verdict::Abort(sig)
            }
        }
    }
}

pub fn case_strategy(spec: &SeqSpec) -> BoxedStrategy<SeqCase> {
    let w = (spec.weights)();
    let max_ops = spec.max_ops;
    ((spec.cfg)(), prop::collection::vec(op_strategy(&w), 0..=max_ops))
        .prop_map(|(cfg, ops)| SeqCase { cfg, ops })
        .boxed()
}

pub fn run_spec(spec: &SeqSpec, ctx: &Ctx) -> Finish {
    let thorough = ctx.tier == "thorough";
    let mut ev = Evidence::new(spec.prop, &ctx.tier, ctx.seed, "exploration", spec.rule);
    ev.assumptions = spec.assumptions.iter().map(|s| s.to_string()).collect();
    ev.assumptions.push(
        "sequential histories only; allocators of 1-4 trees (one generated case in sixteen: 5-24 trees; enumerated cases: 1-3 trees); the reference model is a per-frame ownership map written from the property statements".into(),
    );
    // thorough tier: the full per-frame / per-block scans run after EVERY step of every fourth
    // case (by case hash), not only after failing calls and at the end
    let mut deep = spec.oracles.clone();
    deep.scan_every_step = true;
    crate::install_fault_handler(ctx);
    let prop = ctx.prop.clone();
    let test = |case: &SeqCase| {
        let or = if thorough && hash_of(case) % 4 == 0 { &deep } else { &spec.oracles };
        let doc = crate::fault_doc(&prop, "seq", case);
        crate::crash::set_current(&doc);
        let out = run_seq(case, or, false);
        crate::crash::clear_current();
        verdict_for(spec, case, &out)
    };
    // 1. bounded-exhaustive enumeration
    let l = if thorough { spec.enum_len.1 } else { spec.enum_len.0 };
    if l > 0 {
        let cfgs = (spec.enum_cfgs)();
        let alpha = (spec.enum_alphabet)();
        let a = alpha.len() as u64;
        // number of sequences of length <= l
        let per_cfg: u64 = (0..=l as u32).map(|k| a.pow(k)).sum();
        let total = per_cfg * cfgs.len() as u64;
        let make = |i: u64| -> Option<SeqCase> {
            let cfg = cfgs[(i / per_cfg) as usize].clone();
            let mut r = i % per_cfg;
            // find length
            let mut len = 0u32;
            while r >= a.pow(len) {
                r -= a.pow(len);
                len += 1;
            }
            let mut ops = Vec::with_capacity(len as usize);
            for _ in 0..len {
                ops.push(alpha[(r % a) as usize].clone());
                r /= a;
            }
            Some(SeqCase { cfg, ops })
        };
        let (stats, fail) = run_indexed(total, make, test);
        ev.stats.merge(stats);
        if let Some(f) = fail {
            return ctx.fail(ev, "seq", &f.case, f.msg);
        }
        ev.stats.exhaustive.push(format!(
            "all {per_cfg} op sequences of length <= {l} over a {a}-op abstract alphabet, for each of {} configurations",
            cfgs.len()
        ));
    }
    // 2. proptest histories
    let cases = if thorough { spec.cases.1 } else { spec.cases.0 };
    let cases = ctx.scale(cases);
    let (stats, fail) = run_proptest(ctx.seed, cases, || case_strategy(spec), test);
    ev.stats.merge(stats);
    if let Some(f) = fail {
        return ctx.fail(ev, "seq", &f.case, f.msg);
    }
    ev.extra.insert(
        "drivers".into(),
        json!({"enumeration_len": l, "proptest_cases": cases, "max_ops_per_history": spec.max_ops}),
    );
    ctx.pass(ev)
}

pub fn replay(prop: &str, case: &SeqCase) -> Option<String> {
    let spec = spec_for(prop)?;
    let quiet = crate::QUIET.load(std::sync::atomic::Ordering::Relaxed);
    let out = run_seq(case, &spec.oracles, !quiet);
    for l in &out.trace {
        println!("{l}");
    }
    match verdict_for(&spec, case, &out) {
        Verdict::Fail(m) => Some(m),
        Verdict::Known(k) => {
            println!("KNOWN-FINDING: property={prop} {k}: reproduced by this replay file (listed in known_findings.json)");
            None
        }
        v => {
            if !quiet {
                println!("verdict: {v:?}");
            }
            None
        }
    }
}

// ---------------------------------------------------------------------------------------
// shared pieces

fn std_cfgs() -> Vec<Config> {
    vec![
        Config {
            frames: 2 * TREE_FRAMES,
            init: InitKind::FreeAll,
            classes: ClassKind::Simple([1, 1]),
        },
        Config {
            frames: TREE_FRAMES + llfree::HUGE_FRAMES + 70,
            init: InitKind::FreeAll,
            classes: ClassKind::Zeroed([1, 1, 1]),
        },
        Config {
            frames: 3 * TREE_FRAMES,
            init: InitKind::AllocAll,
            classes: ClassKind::Movable([1, 2, 1]),
        },
    ]
}

fn s0() -> SlotSel {
    SlotSel::Slot(0)
}

fn std_alphabet() -> Vec<Op> {
    let h = HUGE_ORDER as u8;
    vec![
        Op::Get { order: 0, class: 0, slot: s0(), target: Target::None },
        Op::Get { order: 0, class: 1, slot: SlotSel::None, target: Target::None },
        Op::Get { order: h, class: 1, slot: s0(), target: Target::None },
        Op::Get { order: 7, class: 0, slot: s0(), target: Target::None },
        Op::Get { order: 0, class: 0, slot: s0(), target: Target::Free(0x8000) },
        Op::Get { order: 3, class: 0, slot: SlotSel::None, target: Target::Held(0) },
        Op::Get { order: TREE_ORDER as u8, class: 1, slot: SlotSel::None, target: Target::None },
        Op::Put { what: PutWhat::Held(0), class: 0, slot: s0() },
        Op::Put { what: PutWhat::Held(0xffff), class: 1, slot: SlotSel::None },
        Op::Put { what: PutWhat::Part { held: 0, down: 10, part: 0 }, class: 0, slot: SlotSel::None },
        Op::Put { what: PutWhat::Part { held: 0xffff, down: 1, part: 0xffff }, class: 0, slot: s0() },
        Op::Put { what: PutWhat::Arbitrary { order: 0, pos: 0 }, class: 0, slot: SlotSel::None },
        Op::Put { what: PutWhat::Cover { held: 0, up: 1 }, class: 0, slot: SlotSel::None },
        Op::Drain,
        Op::Exhaust { order: 0, class: 0, slot: s0() },
    ]
}

fn cfg_std() -> BoxedStrategy<Config> {
    config_strategy(4, false, false, false)
}
fn cfg_zero_slots() -> BoxedStrategy<Config> {
    config_strategy(4, false, true, false)
}

fn nt_c02(_c: &SeqCase, o: &Outcome) -> bool {
    o.feat("failing_call") > 0
        && (o.feat("partial_free_of_whole") > 0
            || o.feat("failing_free_of_partly_held") > 0
            || o.feat("targeted_get") > 0)
}

fn nt_c04(_c: &SeqCase, o: &Outcome) -> bool {
    o.feat("cross_slot_free") > 0
        && (o.feat("drain_after_cross_free") > 0 || o.feat("fallback_after_cross_free") > 0)
}

pub fn spec_for(prop: &str) -> Option<SeqSpec> {
    let base = SeqSpec {
        prop: "",
        own_tags: &[],
        oracles: Oracles::default(),
        rule: "",
        nontrivial: |_, _| false,
        weights: || Weights::base(3),
        cfg: cfg_std,
        max_ops: 40,
        cases: (40_000, 1_000_000),
        enum_len: (3, 4),
        enum_cfgs: std_cfgs,
        enum_alphabet: std_alphabet,
        assumptions: &[],
    };
    Some(match prop {
        "C02" => SeqSpec {
            prop: "C02",
            own_tags: &["C02", "C06"],
            rule: "generated: proptest histories (<=40 ops over get/put/part-put/arbitrary-put/cover-put/drain/exhaust/free-subset; FreeAll and AllocAll; 1-4 trees incl. partial last tree/huge frame; simple, movable, zeroed, single classings incl. zero-slot classes) plus all sequences up to the stated length over a 15-op abstract alphabet. Every call result is compared with the ownership model in both directions and a per-frame scan follows every failing call. Non-trivial = the history contains a failing call AND (a partial free of a whole-allocated huge frame OR a failing free of a partly held block OR a targeted allocation); distinct by case hash.",
            nontrivial: nt_c02,
            cfg: cfg_zero_slots,
            ..base
        },
        "C04" => SeqSpec {
            prop: "C04",
            own_tags: &["C04"],
            oracles: Oracles {
                accounting: true,
                ..Default::default()
            },
            rule: "generated as C02 plus change_tree steps that offline only entirely free trees (min_free = TREE_FRAMES), online, validate. After every call: stats() exact counts, stats_at per huge frame and per tree, tree_stats().free_frames == exact - offline frames, validate() when nothing is offline; per-frame stats_at and is_free over every aligned block of every order after failing calls and at the end. Non-trivial = a free through a different slot (or none) than the allocation AND a later drain or reservation change (sync/steal/demote fallback); distinct by case hash.",
            nontrivial: nt_c04,
            weights: || Weights {
                change: 4,
                change_offline_full: 3,
                validate: 2,
                drain: 8,
                ..Weights::base(3)
            },
            ..base
        },
        "C09" => SeqSpec {
            prop: "C09",
            own_tags: &["PANIC"],
            oracles: Oracles {
                continue_for_panics: true,
                ..Oracles::default()
            },
            rule: "generated: widest history generator (any order/target/slot, arbitrary frees, drains, change_tree naming any tree id incl. beyond the end, any min_free, offline of partly used trees, online) over frame counts 0..4 trees, FreeAll/AllocAll, all classings incl. zero-slot classes and the zeroed policy. Oracle: no call (and no construction) panics. Non-trivial = history reaching at least one risk class (targeted allocation while the slot holds a reservation, zero-slot class configured, change_tree beyond the last tree, zero frames, partly used tree offlined, whole reserved tree freed through other paths then drained); distinct by case hash.",
            nontrivial: |c, o| {
                c.cfg.frames == 0
                    || c.cfg.classes.slots().contains(&0)
                    || o.feat("offline_partial") > 0
                    || o.feat("targeted_get") > 0 && o.feat("reservation_changed") > 0
                    || c.ops.iter().any(|op| {
                        matches!(
                            op,
                            Op::Change {
                                sel: TreeSel::Beyond(_),
                                ..
                            }
                        )
                    })
            },
            weights: || Weights {
                change: 8,
                beyond: true,
                offline_full_only: false,
                get_target: 20,
                drain: 6,
                put_arbitrary: 8,
                ..Weights::base(3)
            },
            cfg: || config_strategy(4, true, true, false),
            enum_len: (4, 5),
            enum_cfgs: || {
                let mut c = std_cfgs();
                c[0].classes = ClassKind::Zeroed([1, 1, 1]);
                c[1].classes = ClassKind::Simple([0, 1]);
                c
            },
            enum_alphabet: || {
                let mut a = std_alphabet();
                a.push(Op::Change { sel: TreeSel::Id(0), class: None, min_free: MinFree::Zero, set_class: Some(2), op: TreeOp::None });
                a.push(Op::Get { order: TREE_ORDER as u8, class: 2, slot: s0(), target: Target::None });
                a.push(Op::Get { order: 0, class: 2, slot: s0(), target: Target::None });
                a.push(Op::Change { sel: TreeSel::Match, class: None, min_free: MinFree::One, set_class: None, op: TreeOp::Offline });
                a.push(Op::Change { sel: TreeSel::Match, class: None, min_free: MinFree::Zero, set_class: Some(0), op: TreeOp::Online });
                a.push(Op::Change { sel: TreeSel::Beyond(0), class: None, min_free: MinFree::Zero, set_class: None, op: TreeOp::None });
                a
            },
            ..base
        },
        "C10" => SeqSpec {
            prop: "C10",
            own_tags: &["C10"],
            rule: "generated: C02-style histories with DrainCheck steps (drain, then one checked call: base-order get with any class/slot, or a targeted get of a generated block of any order) and full-tree offline/online steps; simple, movable, zeroed, single classings (none rates Invalid). Oracle: base order fails with Memory only if the model has no free frame outside offline trees; targeted succeeds iff the model says the block is entirely free and its tree is not offline. Non-trivial = a checked call made while the model has free frames, after a cross-slot free or a split of a whole huge frame; distinct by case hash.",
            nontrivial: |_, o| o.feat("drain_check_nontrivial") > 0,
            weights: || Weights {
                drain_check: 14,
                change: 3,
                change_offline_full: 3,
                exhaust: 4,
                ..Weights::base(3)
            },
            cfg: cfg_zero_slots,
            enum_alphabet: || {
                let mut a = std_alphabet();
                a.push(Op::DrainCheck { class: 0, slot: s0(), order: 0, target: Target::None });
                a.push(Op::DrainCheck { class: 1, slot: SlotSel::None, order: HUGE_ORDER as u8, target: Target::Free(0) });
                a
            },
            ..base
        },
        "C13" => SeqSpec {
            prop: "C13",
            own_tags: &["C13"],
            oracles: Oracles {
                class: true,
                ..Default::default()
            },
            rule: "generated: C02-style histories under simple, movable, zeroed and a harness policy that rates class pairs (0,2)/(2,0) Invalid, with class changes and exhaustion to force steal/demote fallbacks. Oracle: the reported class equals the requested one or exists free in [2^order, TREE_FRAMES] with policy(requested, reported, free) in {Match, Steal}. Non-trivial = a successful allocation whose reported class differs from the requested class; distinct by case hash.",
            nontrivial: |_, o| o.feat("class_differs") > 0,
            weights: || Weights {
                exhaust: 8,
                change: 4,
                ..Weights::base(3)
            },
            cfg: || config_strategy(4, false, true, true),
            ..base
        },
        "C14" => SeqSpec {
            prop: "C14",
            own_tags: &["C14"],
            oracles: Oracles {
                class_stats: true,
                ..Default::default()
            },
            rule: "generated: C02-style histories with drains and class changes. After every call: sum over classes of (free+allocated) == trees*TREE_FRAMES and sum of per-class free == tree_stats().free_frames. Non-trivial = history in which the check ran in a state with at least one live reservation and again after a drain; distinct by case hash.",
            nontrivial: |_, o| o.feat("c14_state_with_reservation") > 0 && o.feat("drain") > 0,
            weights: || Weights {
                drain: 8,
                change: 3,
                ..Weights::base(3)
            },
            ..base
        },
        "C15" => SeqSpec {
            prop: "C15",
            own_tags: &["C15"],
            oracles: Oracles {
                offline: true,
                ..Default::default()
            },
            rule: "generated: change-heavy histories (offline of entirely free trees by id and by class/free match, class changes, online; interleaved with all allocation kinds, targeted gets, drains, exhaustion). Oracle per change_tree from the observed tree words: Ok iff an unreserved matching tree exists (ids beyond the end never match), exactly one matching tree changes to the expected word, nothing else changes; no allocation returns a frame of an offline tree; online restores (class, TREE_FRAMES, unreserved). Non-trivial = history with an allocation attempt while a tree is offline and a later successful online; distinct by case hash.",
            nontrivial: |_, o| {
                (o.feat("alloc_while_offline") + o.feat("alloc_fail_while_offline")) > 0
                    && o.feat("online_ok") > 0
            },
            weights: || Weights {
                change: 16,
                change_offline_full: 10,
                exhaust: 4,
                get_target: 16,
                ..Weights::base(3)
            },
            enum_alphabet: || {
                let mut a = std_alphabet();
                a.truncate(9);
                a.push(Op::Drain);
                a.push(Op::Exhaust { order: 0, class: 0, slot: s0() });
                a.push(Op::Change { sel: TreeSel::Match, class: None, min_free: MinFree::Tree, set_class: None, op: TreeOp::Offline });
                a.push(Op::Change { sel: TreeSel::Id(0xffff), class: None, min_free: MinFree::Tree, set_class: None, op: TreeOp::Offline });
                a.push(Op::Change { sel: TreeSel::Match, class: None, min_free: MinFree::Zero, set_class: Some(0), op: TreeOp::Online });
                a.push(Op::Change { sel: TreeSel::Id(0), class: Some(1), min_free: MinFree::Zero, set_class: Some(2), op: TreeOp::None });
                a
            },
            ..base
        },
        "C07" => SeqSpec {
            prop: "C07",
            own_tags: &["C07"],
            rule: "generated: C02-style histories containing Handoff steps: the three metadata buffers are byte-copied at that (quiescent) point, a twin is built with Init::None and the same classing, and every later call runs on both. Oracle: identical results (frame, class, error) for every call and identical stats, tree_stats, tree words and per-frame status after every step. Non-trivial = a handoff taken with at least one live reservation and at least one partly used huge frame, followed by at least one call; distinct by case hash.",
            nontrivial: |_, o| {
                o.feat("handoff_with_reservation") > 0 && o.feat("handoff_with_partial_huge") > 0
            },
            weights: || Weights {
                handoff: 6,
                change: 3,
                drain: 3,
                ..Weights::base(3)
            },
            cfg: cfg_zero_slots,
            enum_len: (0, 0),
            ..base
        },
        "C11" => SeqSpec {
            prop: "C11",
            own_tags: &["C11"],
            oracles: Oracles {
                single_slot: true,
                ..Default::default()
            },
            rule: "generated: allocators with exactly one local slot (single class; simple and movable classings where the slot's class is the default class or below it; class ids with gaps), FreeAll or AllocAll, 2-4 trees incl. short last trees, base order and one class only: exhaust/allocate through the slot, free generated subsets (and, after AllocAll, arbitrary single frames) through the slot or without a slot, allocate again until failure; plus an aimed family freeing exactly 1..3 frames without slot into the slot's own reserved tree. Oracle: a base-order allocation returns Memory only if the model has no free frame. Non-trivial = a history where a failing or succeeding allocation happened while the only free frames were ones freed without naming the slot; distinct by case hash.",
            nontrivial: |_, o| o.feat("free_without_slot") > 0 && o.feat("exhaust") > 0,
            weights: || Weights {
                get: 30,
                get_target: 0,
                put_held: 20,
                put_part: 0,
                put_arbitrary: 6,
                put_cover: 0,
                drain: 0,
                exhaust: 12,
                free_subset: 10,
                max_order: 0,
                free_tree: 10,
                get_always_slot: true,
                ..Weights::base(1)
            },
            cfg: || {
                // exactly one slot in the whole allocator; the class that owns it may be the
                // default class of the classing, below it (trees must be demoted) or the only one
                let classes = prop_oneof![
                    4 => Just(ClassKind::Single(1)),
                    3 => Just(ClassKind::Simple([1, 0])),
                    2 => Just(ClassKind::Simple([0, 1])),
                    1 => Just(ClassKind::Movable([1, 0, 0])),
                    1 => Just(ClassKind::Movable([0, 1, 0])),
                    1 => Just(ClassKind::Movable([0, 0, 1])),
                    1 => Just(ClassKind::SimpleIds([1, 0], [2, 5])),
                ];
                (
                    2..=4usize,
                    0..3usize,
                    0usize..70,
                    classes,
                    prop_oneof![4 => Just(InitKind::FreeAll), 1 => Just(InitKind::AllocAll)],
                )
                    .prop_map(|(t, k, d, classes, init)| Config {
                        frames: match k {
                            0 => t * TREE_FRAMES,
                            1 => t * TREE_FRAMES - d * 7 % TREE_FRAMES,
                            _ => (t - 1) * TREE_FRAMES + llfree::HUGE_FRAMES + d,
                        },
                        init,
                        classes,
                    })
                    .boxed()
            },
            enum_cfgs: || {
                vec![
                    Config {
                        frames: 2 * TREE_FRAMES,
                        init: InitKind::FreeAll,
                        classes: ClassKind::Single(1),
                    },
                    Config {
                        frames: TREE_FRAMES + llfree::HUGE_FRAMES + 36,
                        init: InitKind::FreeAll,
                        classes: ClassKind::Simple([1, 0]),
                    },
                ]
            },
            enum_alphabet: || {
                vec![
                    Op::Get { order: 0, class: 0, slot: s0(), target: Target::None },
                    Op::Exhaust { order: 0, class: 0, slot: s0() },
                    Op::Put { what: PutWhat::Held(0), class: 0, slot: SlotSel::None },
                    Op::Put { what: PutWhat::Held(0xffff), class: 0, slot: SlotSel::None },
                    Op::Put { what: PutWhat::Held(0x8000), class: 0, slot: s0() },
                    Op::Put { what: PutWhat::Held(0xffff), class: 0, slot: s0() },
                    Op::FreeTree { reserved: true, tree: 0, class: 0, slot: SlotSel::None },
                    Op::FreeTree { reserved: false, tree: 0, class: 0, slot: SlotSel::None },
                    Op::FreeSubset { mask: 0x0001_0001, class: 0, slot: SlotSel::None },
                    Op::FreeSubset { mask: 0xffff_ffff, class: 0, slot: s0() },
                ]
            },
            enum_len: (4, 6),
            ..base
        },
        _ => return None,
    })
}
