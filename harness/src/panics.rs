//! Panic capture: a silent panic hook that records message and location per thread.

use std::cell::RefCell;
use std::panic::{AssertUnwindSafe, catch_unwind};
use std::sync::Once;

use serde::{Deserialize, Serialize};

#[derive(Serialize, Deserialize, Clone, Debug, PartialEq, Eq, Hash)]
pub struct PanicInfo {
    pub msg: String,
    pub file: String,
    pub line: u32,
}

impl PanicInfo {
    /// Signature used for known-finding matching: message prefix + file.
    pub fn signature(&self) -> String {
        format!("{} @ {}", self.msg, self.file)
    }
}

thread_local! {
    static LAST: RefCell<Option<PanicInfo>> = const { RefCell::new(None) };
}

static INSTALL: Once = Once::new();

pub fn install_hook() {
    INSTALL.call_once(|| {
        std::panic::set_hook(Box::new(|info| {
            let msg = if let Some(s) = info.payload().downcast_ref::<&str>() {
                (*s).to_string()
            } else if let Some(s) = info.payload().downcast_ref::<String>() {
                s.clone()
            } else {
                "<non-string panic>".to_string()
            };
            let (file, line) = info
                .location()
                .map(|l| (l.file().to_string(), l.line()))
                .unwrap_or_default();
            if std::env::var_os("VF_SHOW_PANICS").is_some() {
                eprintln!("panic: {msg} at {file}:{line}");
            }
            LAST.with(|l| *l.borrow_mut() = Some(PanicInfo { msg, file, line }));
        }));
    });
}

/// Run `f`, catching a panic and returning its recorded info.
pub fn guarded<R>(f: impl FnOnce() -> R) -> Result<R, PanicInfo> {
    install_hook();
    LAST.with(|l| *l.borrow_mut() = None);
    match catch_unwind(AssertUnwindSafe(f)) {
        Ok(r) => Ok(r),
        Err(_) => Err(LAST.with(|l| l.borrow_mut().take()).unwrap_or(PanicInfo {
            msg: "<unknown panic>".into(),
            file: String::new(),
            line: 0,
        })),
    }
}
