#![no_main]
use libfuzzer_sys::fuzz_target;

fuzz_target!(|data: &[u8]| {
    vfh::decode::fuzz_sched(data);
});
